"""Per-property configuration of the check orchestrator."""

COMMON_ASSUME = [
    "the process supervisor is replaced by a scripted fake that honours the documented ProcessSupervisor contract; all other components are the repository's own code",
    "Go race detector build (-race) with -tags verif pause points; pause points only delay the goroutine that reaches them",
    "verdicts cover the executions produced by this run only",
]

ENGINES = [
    {"name": "G", "path": "harness/inject/verifharness", "serves_properties": [],
     "kind_free_text": "real interop server + orchestrator + Runtime API server assembled in-process through rapidcore.NewSandboxBuilder with a scripted fake process supervisor, real HTTP parties, recording EventsAPI/Tracer, pause-point hooks; offline oracles over a sequence-numbered event log; Go race detector"},
    {"name": "U", "path": "harness/inject/verifharness/cmd/driver", "serves_properties": [],
     "kind_free_text": "direct differential drivers of exported pure components against independent reference models (latch, environment layering, direct-invoke parser/copier/token bucket, local supervisor with real /bin/sh children, sanitising functions); porcupine for concurrent latch histories; Go race detector"},
]
NOTES = "Runtime monitoring only: every verdict is an oracle over observed executions of the real code (race-detector build). ./check <id> <tier> rebuilds from /repo's working tree each time. known_findings.jsonl lists recorded defects and 'fixed:' lines."
PENDING = {}

PROPS = {
    "C10": {
        "level": "exploration",
        "rule": "one case = (phase of the in-flight invocation at which extra callers arrive, number of extra callers, number of extensions, arrival offset, length of healthy history); distinct = distinct normalised observed trace (sources, operations, statuses, request-id ordinals); non-trivial = at least one extra caller was issued while the first invocation was in the stated phase (hook reached / state observed)",
        "engine": "G",
        "technique": "runtime monitoring: hook-enumerated arrival phases of concurrent callers on the real in-process stack, crash/wedge monitors on child processes, race-detector build",
        "level_text": "every phase of an in-flight invocation (first init, reserved-not-dispatched, runtime working, responded-extensions-pending, timeout fired, reset in progress, just returned) is opened deterministically with pause points and 1-3 extra callers are issued inside it; the oracle checks refusal with a client error before the in-flight call finishes, unchanged outcome of the in-flight call, no extra dispatch, health of the next invocation, and that the hosting process survives. Sampled arrival offsets and histories in the thorough tier.",
        "level_note": "trusts the fake supervisor and the harness's phase detection (hook reached / internal state snapshot); covers the EmulatorAPI.Invoke entry point the HTTP front end calls",
        "required_clauses": ["extra_refused", "first_unaffected", "next_ok"],
        "required_hooks": ["invoke.reserved", "invoke.timeoutFired", "handleReset.flowsCancelled"],
        "assumptions": COMMON_ASSUME,
    },
    "C01": {
        "level": "exploration",
        "engine": "G",
        "technique": "runtime monitoring: generated invocation histories with uniquely tagged payloads on the real in-process stack; byte-exact differential oracle at the client boundary (runtime side and caller side); race-detector build",
        "level_text": "histories of 3-8 invocations per emulator instance (sizes 0..limit, JSON/binary/invalid-UTF-8/NUL/equal-content payloads, decreasing and increasing sizes, responses and errors, positions after crashed / timed-out / oversized / init-failed invocations, client contexts incl. non-ASCII); every event and response carries a unique tag so that any leak between invocations is attributable; oracle: event bytes at the runtime, fresh id, ARN, client context, deadline window, caller bytes == posted bytes, one write, no late write, no cross-talk, exactly one outcome",
        "level_note": "drives EmulatorAPI.Invoke (what the HTTP front end calls) with a recording ResponseWriter; header bytes that net/http itself rewrites (CR/LF/NUL) are not generated; sampled histories, enumerated size ladders",
        "rule": "one case = one history of invocations on a fresh emulator instance (enumerated ladders per payload kind x mode, positions after each failure kind, limit-sized history, plus seed-selected random histories); distinct = distinct (mode,size,outcome) sequence + normalised supervisor/caller trace; non-trivial = every case (each runs >= 2 invocations through the full stack)",
        "required_clauses": ["event_exact", "body_exact", "fresh_id", "deadline", "client_context", "no_cross_talk", "crash_body", "timeout_status", "initerror_body"],
        "max_shards": 8,
        "assumptions": COMMON_ASSUME,
    },
    "C14": {
        "level": "exploration",
        "engine": "G",
        "technique": "runtime monitoring: boundary-size histories (limit-2..limit+2, 0, 1, limit/2, 2*limit) on the real in-process stack with byte-exact oracle and supervisor-log monitor for absence of a reset; race-detector build",
        "level_text": "response and event sizes in a window around 6 MiB + 100 at every position of 3-4 step histories; oracle: <= limit delivered intact with 202; > limit answered 413 RequestEntityTooLarge to the runtime and Function.ResponseSizeTooLarge (naming both sizes) to the caller; no Exec/Terminate/Kill before the next invocation, which is served by the same process; events longer than the limit arrive cut at exactly the limit",
        "level_note": "same engine and trust as C01; sizes enumerated around the boundary, random histories in the thorough tier",
        "rule": "one case = one history with a boundary-sized response or event at a chosen position; distinct = distinct (mode,size,outcome) sequence + normalised supervisor/caller trace; non-trivial = every case (each contains at least one size within 2 bytes of the limit or beyond it)",
        "required_clauses": ["oversize_413", "oversize_sizes", "at_limit_intact", "event_cut_at_limit", "same_environment"],
        "max_shards": 8,
        "assumptions": COMMON_ASSUME,
    },
    "C03": {
        "level": "exploration",
        "engine": "G",
        "technique": "runtime monitoring: conductor-enumerated total orders of register/next/invoke steps of puppet parties over real HTTP; ordering oracle on global sequence numbers (call.seq / ret.seq); race-detector build",
        "level_text": "all linear extensions of the protocol's step partial order are executed for runtime + <=2 external + <=1 internal extensions with the first invocation placed at every position (exhaustive for the listed small configurations), every subscription assignment for (2 external, 1 internal) with each party held to the last position, and seed-selected orders for 3 external + 2 internal; a step is released only when the previous one returned or the party is observed parked (state Ready in the emulator's own snapshot). Oracle: launch set == non-directory entries (names with spaces / UTF-8 / dot-files, directories present), runtime exec after every external register, no delivery before every accepted party issued its first next, late registration refused with RegistrationClosed, first invocation succeeds.",
        "level_note": "internal extensions are modelled as extra HTTP connections of the runtime process; orders within one emulator method are not enumerated (API-step granularity)",
        "rule": "one case = (subscription set per extension, directory entries, one total order of the API steps); distinct = distinct (configuration, order); non-trivial = every case (each drives a full init with >= 1 party and the first invocation)",
        "required_clauses": ["no_delivery_before_all_arrived", "launch_exactly_once", "register_before_runtime_exec", "late_register_refused", "first_invocation_succeeds", "non_subscriber_not_served"],
        "exhaustive": {"quick": False, "thorough": False},  # exhaustive per listed small configuration; the sampled 3+2 part is not
        "assumptions": COMMON_ASSUME,
    },
    "C04": {
        "level": "exploration",
        "engine": "G",
        "technique": "runtime monitoring: conductor-enumerated completion orders (runtime response, runtime next, each subscriber's next) over consecutive invocations with puppet parties over real HTTP; exactly-once / ordering / equality oracle on the event log; race-detector build",
        "level_text": "for every subscription set over 0..3 external (+ internal) extensions and every order in which the runtime responds, returns to next and each INVOKE subscriber returns to next (all linear extensions; each party held last), over 3-5 consecutive invocations in response and error mode: each subscriber gets exactly one INVOKE event with the runtime's request id and ARN, a deadline within 25 ms of the runtime's and the caller's trace value; non-subscribers get none; the invoke call has not returned when the last step is issued and returns after it; no party is served while nothing is in flight; per-party id sequences equal the caller order",
        "level_note": "API-step granularity as for C03; the deadline tolerance absorbs the code's two mono->epoch conversions",
        "rule": "one case = (subscription sets, per-invocation completion orders, response/error modes); distinct = distinct (configuration, orders); non-trivial = every case (3+ invocations through the full stack)",
        "required_clauses": ["subscriber_gets_event", "event_same_id", "event_deadline", "event_trace", "no_early_completion", "completes_after_all", "non_subscriber_silent", "in_order_exactly_once"],
        "assumptions": COMMON_ASSUME,
    },
    "C06": {
        "level": "fault_enumeration",
        "engine": "G",
        "technique": "runtime monitoring with fault injection: every crash point of scripted runtime / extension processes x exit kind x configuration on the real in-process stack; table oracle on caller outcome, supervisor log (reaped-before-answer) and recovery; race-detector build",
        "level_text": "the product {runtime: before next, after /init/error, after next, after response, idle after returning to next} + {each of 0..2 extensions: launch failure, before register, after register, after first event, after /extension/init/error, after /extension/exit/error (during init and after an event)} x exit {0, 3, SIGKILL, SIGSEGV} x invoke timing {with init in progress, after the fault} x {runtime responded first, response withheld} is enumerated; the thorough tier adds ordered double faults and pause-point delays. Oracle per statement: failure status (never a hang), body = delivered response / runtime's init-error payload / JSON naming the first fault and this request id / empty for unreported init faults, every process started before the answer reaped before it, next invocation succeeds on processes started afterwards.",
        "level_note": "one fault per scenario in the enumerated part so that 'first fault' is unambiguous; double faults only assert the platform-shape of the body",
        "rule": "one case = (faulty party, crash point, exit kind, number of extensions, invoke timing, response-before-fault flag[, second fault, hook delay]); distinct = distinct normalised supervisor/events/caller trace + outcome; non-trivial = every case (each injects a fault and runs a recovery invocation)",
        "required_clauses": ["failure_status", "body_is_delivered_response", "body_is_init_error", "body_names_first_fault", "body_empty_for_init_fault", "reaped_before_answer", "recovers", "fresh_processes", "never_hangs"],
        "exhaustive": {"quick": True, "thorough": False},
        "assumptions": COMMON_ASSUME,
    },
    "C08": {
        "level": "exploration",
        "engine": "G",
        "technique": "runtime monitoring, relational: the same suffix scenario is executed on an instance after (prefix, reset) and on a reference instance, and the normalised observed traces are compared; pause points enumerate the late-exit-notification orders; race-detector build",
        "level_text": "prefixes {none, 1/3 healthy invocations, runtime /init/error, runtime crash (in flight, idle), extension crash, timeout, extension init/exit error, internal extension, double next (excess barrier arrival), reset in the middle of init, identity-filling user agent, oversized response, stubborn extension} x trigger {automatic failure/timeout reset, explicit reset} x suffix battery {2 healthy, different subscription sets, init error, crash, error response}; compared: caller outcomes and bodies, every status/body each party sees, Exec requests with complete environment digests, terminate/kill multiset, platform event multiset, internal state at the quiescent point after reset. Late notification: the events watcher is paused after recording the last exit of the old generation and resumed (i) before the orchestrator's clear, (ii) before the interop server's clear, (iii) after release, (iv) after the next invocation was dispatched.",
        "level_note": "reference instance = trivial prefix (init completed, explicit reset) so that both runs initialise inside the first suffix invocation; map-iteration and concurrent-kill orders are compared as multisets; the held notification is always the last exit of the old generation so the pause delays nothing the reset waits for",
        "rule": "one case = (prefix, trigger, suffix, number of extensions[, late-notification order]); two emulator instances per case; distinct = distinct case + caller outcome sequence; non-trivial = every case",
        "required_clauses": ["suffix_equal_caller_outcomes", "suffix_equal_party_traces", "suffix_equal_exec_requests", "suffix_equal_platform_events", "state_clean_after_reset", "late_window_reached"],
        "required_hooks": ["watchEvents.exitRecorded", "rapidCtx.beforeClear", "serverReset.beforeClear"],
        "max_shards": 12,
        "assumptions": COMMON_ASSUME,
    },
}
