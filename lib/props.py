"""Per-property configuration of the check orchestrator."""

COMMON_ASSUME = [
    "the process supervisor is replaced by a scripted fake that honours the documented ProcessSupervisor contract; all other components are the repository's own code",
    "Go race detector build (-race) with -tags verif pause points; pause points only delay the goroutine that reaches them",
    "verdicts cover the executions produced by this run only",
]

ENGINES = [
    {"name": "G", "path": "harness/inject/verifharness", "serves_properties": [],
     "kind_free_text": "real interop server + orchestrator + Runtime API server assembled in-process through rapidcore.NewSandboxBuilder with a scripted fake process supervisor, real HTTP parties, recording EventsAPI/Tracer, pause-point hooks; offline oracles over a sequence-numbered event log; Go race detector"},
    {"name": "U", "path": "harness/inject/verifharness/cmd/driver", "serves_properties": [],
     "kind_free_text": "direct differential drivers of exported pure components against independent reference models (latch, environment layering, direct-invoke parser/copier/token bucket, local supervisor with real /bin/sh children, sanitising functions); porcupine for concurrent latch histories; Go race detector"},
]
NOTES = "Runtime monitoring only: every verdict is an oracle over observed executions of the real code (race-detector build). ./check <id> <tier> rebuilds from /repo's working tree each time. known_findings.jsonl lists recorded defects and 'fixed:' lines."
PENDING = {}

PROPS = {
    "C10": {
        "level": "exploration",
        "rule": "one case = (phase of the in-flight invocation at which extra callers arrive, number of extra callers, number of extensions, arrival offset, length of healthy history); distinct = distinct normalised observed trace (sources, operations, statuses, request-id ordinals); non-trivial = at least one extra caller was issued while the first invocation was in the stated phase (hook reached / state observed)",
        "engine": "G",
        "technique": "runtime monitoring: hook-enumerated arrival phases of concurrent callers on the real in-process stack, crash/wedge monitors on child processes, race-detector build",
        "level_text": "every phase of an in-flight invocation (first init, reserved-not-dispatched, runtime working, responded-extensions-pending, timeout fired, reset in progress, just returned) is opened deterministically with pause points and 1-3 extra callers are issued inside it; the oracle checks refusal with a client error before the in-flight call finishes, unchanged outcome of the in-flight call, no extra dispatch, health of the next invocation, and that the hosting process survives. Sampled arrival offsets and histories in the thorough tier.",
        "level_note": "trusts the fake supervisor and the harness's phase detection (hook reached / internal state snapshot); covers the EmulatorAPI.Invoke entry point the HTTP front end calls",
        "required_clauses": ["extra_refused", "first_unaffected", "next_ok"],
        "required_hooks": ["invoke.reserved", "invoke.timeoutFired", "handleReset.flowsCancelled"],
        "assumptions": COMMON_ASSUME,
    },
}
