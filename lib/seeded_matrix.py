#!/usr/bin/env python3
"""seeded_matrix.py [ids...] - runs every seeded change under /verif/seeded against the quick check of the property it
breaks (plus the extra properties listed in its meta.json "also_run"), in a throw-away worktree, and writes
seeded/RESULTS.json: per seed, per property: exit code, VIOLATION signatures. Used for DESIGN.md section 9.7."""
import json, os, re, sys, subprocess
sys.path.insert(0, os.path.dirname(os.path.abspath(__file__)))
import seeded
V = "/verif"
ids = sys.argv[1:] or sorted(os.listdir(os.path.join(V, "seeded")))
out_path = os.environ.get("SEEDED_OUT") or os.path.join(V, "seeded", "RESULTS.json")  # SEEDED_OUT: partial result file of a parallel stream (merged by hand)
res = json.load(open(out_path)) if os.path.exists(out_path) else {}
for sid in ids:
    d = os.path.join(V, "seeded", sid)
    if not os.path.isfile(os.path.join(d, "meta.json")):
        continue
    meta = json.load(open(os.path.join(d, "meta.json")))
    props = [meta["breaks_property"]] + meta.get("also_run", [])
    r = seeded.run(os.path.join(d, "patch.diff"), props)
    entry = {}
    for p, v in (r or {}).items() if isinstance(r, dict) else []:
        sigs = sorted(set(re.findall(r"\[(C\d\d/[^\]]+)\]", " ".join(v["lines"]))))
        entry[p] = {"rc": v["rc"], "signatures": sigs[:8], "summary": v["summary"]}
    res[sid] = entry
    json.dump(res, open(out_path, "w"), indent=1, sort_keys=True)
print("done")
