#!/usr/bin/env python3
"""Rewrites the table of DESIGN.md section 9.7 (between the markers) from seeded/*/meta.json and seeded/RESULTS.json."""
import json, os, re
V = "/verif"
res = json.load(open(os.path.join(V, "seeded", "RESULTS.json")))
rows = []
for sid in sorted(os.listdir(os.path.join(V, "seeded"))):
    mp = os.path.join(V, "seeded", sid, "meta.json")
    if not os.path.isfile(mp):
        continue
    m = json.load(open(mp))
    files = sorted(set(re.findall(r"^\+\+\+ b/(\S+)", open(os.path.join(V, "seeded", sid, "patch.diff")).read(), re.M)))
    r = res.get(sid, {})
    caught = [p for p, v in r.items() if v["rc"] == 1]
    missed = [p for p, v in r.items() if v["rc"] == 0]
    sigs = []
    for p in caught:
        sigs += r[p]["signatures"][:2]
    first = "missed at first" if "MISSED" in m["caught_by"] else "caught as built"
    if m.get("superseded"):
        first += "; superseded by %s: the change no longer breaks the property on the repaired tree (was caught before: %s)" % (m["superseded"]["by_fix"], m["superseded"]["caught_before"])
    rows.append("| %s | %s | %s | %s | %s | %s |" % (
        sid, ", ".join("`%s`" % f.replace("lambda/", "") for f in files), m["needs_to_manifest"].replace("|", "/")[:230],
        ", ".join(caught) or "-", first, "; ".join("`%s`" % s.replace("|", "/")[:70] for s in sigs[:3])))
hdr = ("| seed | file(s) changed | what it takes to manifest | quick check(s) that exit 1 on it | history | signatures (excerpt) |\n"
       "|------|-----------------|---------------------------|---------------------------------|---------|----------------------|\n")
table = hdr + "\n".join(rows) + "\n"
p = os.path.join(V, "DESIGN.md")
s = open(p).read()
a, b = "<!-- seeded-table:begin -->", "<!-- seeded-table:end -->"
if a in s:
    s = s[:s.index(a) + len(a)] + "\n" + table + s[s.index(b):]
    open(p, "w").write(s)
print(len(rows), "rows")
