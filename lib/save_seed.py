#!/usr/bin/env python3
"""save_seed.py <worktree> <n> <seed-id> <property> <demo-file> <pkgdir> <needs> <caught-by> [<note>]"""
import json, os, shutil, sys
wt, n, sid, prop, demo, pkg, needs, caught = sys.argv[1:9]
note = sys.argv[9] if len(sys.argv) > 9 else ""
src = os.path.join(wt, "SEEDED", n)
dst = os.path.join("/verif/seeded", sid)
os.makedirs(dst, exist_ok=True)
shutil.copy(os.path.join(src, "patch.diff"), os.path.join(dst, "patch.diff"))
shutil.copy(os.path.join(src, demo), os.path.join(dst, "demo_test.go.txt"))
if os.path.exists(os.path.join(src, "NOTES.md")):
    shutil.copy(os.path.join(src, "NOTES.md"), os.path.join(dst, "NOTES.md"))
meta = {
    "id": sid, "breaks_property": prop,
    "needs_to_manifest": needs,
    "demonstration": {"file": "demo_test.go.txt", "copy_into_package_dir": pkg, "run": "go test -vet=off -count=1 -run TestSeed ./%s/" % pkg,
                      "confirmed": "fails with the patch applied, passes without it (lib/confirm_seed.sh in a scratch worktree); go build ./... and the unedited suite pass with the patch"},
    "origin": "written independently by a sub-agent that saw only the property text and its own scratch worktree",
    "checks_run": "python3 lib/seeded.py run seeded/%s/patch.diff <property>  (applies to /repo, runs ./check <property> quick, reverts)" % sid,
    "caught_by": caught, "note": note,
}
json.dump(meta, open(os.path.join(dst, "meta.json"), "w"), indent=1)
print("saved", dst)
