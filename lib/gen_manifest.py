#!/usr/bin/env python3
"""Regenerates /verif/MANIFEST.json from lib/props.py (run after editing props.py)."""
import json, os, subprocess, sys
sys.path.insert(0, os.path.dirname(os.path.abspath(__file__)))
import props

VERIF = os.path.dirname(os.path.dirname(os.path.abspath(__file__)))
ALL = ["C%02d" % i for i in range(1, 21)]

def hook_commits():
    try:
        out = subprocess.run(["git", "-C", "/repo", "log", "--format=%H %s"], stdout=subprocess.PIPE, text=True).stdout
        return [l.split()[0] for l in out.splitlines() if " verifhook:" in " " + l]
    except Exception:
        return []

m = {
    "version": 1,
    "setup_cmd": "./setup.sh",
    "hooks": {
        "guard": "verif",
        "enable": "every check copies /repo's working tree to a scratch directory, injects /verif/harness/inject into it and builds with `go build -race -tags verif` (lambda/verifhook: named pause points, empty stubs without the tag)",
        "baseline_off_cmd": "cd /repo && GOFLAGS=-mod=mod GOPROXY=off GOSUMDB=off GOTOOLCHAIN=local go test -mod=mod -json -vet=off -count=1 -timeout 25m ./...",
        "source_commits": hook_commits(),
        "add_only": True,
    },
    "engines": props.ENGINES,
    "checks": [],
    "not_applicable": [],
    "notes": props.NOTES,
}
for pid in ALL:
    if pid in props.PROPS and props.PROPS[pid].get("claimed", True):
        s = props.PROPS[pid]
        m["checks"].append({
            "property_id": pid,
            "quick_cmd": "./check %s quick" % pid,
            "thorough_cmd": "./check %s thorough" % pid,
            "evidence_file": "evidence/%s.json" % pid,
            "replay_cmd_template": "./check %s quick --replay {path}" % pid,
            "engine": s.get("engine", "G"),
            "level_claimed": {"category": s["level"], "text": s["level_text"], "design_ref": "DESIGN.md §4 " + pid},
            "level_note": s["level_note"],
            "technique": s["technique"],
        })
    else:
        reason = props.PENDING.get(pid, "check not built yet in this session; the design (DESIGN.md §4) applies runtime monitoring to it, no verdict is claimed until the check exists")
        m["not_applicable"].append({"property_id": pid, "reason": reason})
json.dump(m, open(os.path.join(VERIF, "MANIFEST.json"), "w"), indent=1)
print("claimed:", [c["property_id"] for c in m["checks"]])
