#!/bin/bash
# confirm_seed.sh <worktree> <n> <pkgdir> <demo file in SEEDED/n> <test -run regexp>
# Confirms a seeded change: applies it in the scratch worktree, builds, runs the existing suite, runs the
# demonstration (must FAIL), reverts, runs the demonstration again (must PASS).
set -u
export GOFLAGS=-mod=mod GOPROXY=off GOSUMDB=off GOTOOLCHAIN=local
WT=$1; N=$2; PKG=$3; DEMO=$4; RUN=$5
cd $WT || exit 2
git checkout -q -- . ; rm -f $PKG/zz_seed_demo_*_test.go
git apply --whitespace=nowarn SEEDED/$N/patch.diff || { echo "PATCH-DOES-NOT-APPLY"; exit 2; }
go build ./... || { echo "BUILD-FAILS"; git checkout -q -- .; exit 2; }
if go test -vet=off -count=1 ./... > /tmp/confirm-suite.$$ 2>&1; then echo "suite: PASS with change"; else echo "suite: FAILS with change"; grep -v "^ok\|no test files" /tmp/confirm-suite.$$ | head -20; fi
i=0; for f in $(echo $DEMO | tr ',' ' '); do i=$((i+1)); cp SEEDED/$N/$f $PKG/zz_seed_demo_${i}_test.go; done
if go test -vet=off -count=1 -run "$RUN" ./$PKG/ > /tmp/confirm-demo.$$ 2>&1; then echo "demo WITH change: PASS (unexpected)"; else echo "demo WITH change: FAIL (expected)"; fi
tail -5 /tmp/confirm-demo.$$ | cut -c1-200
git checkout -q -- .
if go test -vet=off -count=1 -run "$RUN" ./$PKG/ > /tmp/confirm-demo2.$$ 2>&1; then echo "demo WITHOUT change: PASS (expected)"; else echo "demo WITHOUT change: FAIL (unexpected)"; tail -5 /tmp/confirm-demo2.$$; fi
rm -f $PKG/zz_seed_demo_*_test.go /tmp/confirm-*.$$
git status --porcelain | grep -v SEEDED | head
