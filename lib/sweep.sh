#!/bin/bash
# sweep.sh <tier> <seed> [props...] : runs the checks one after the other, prints one summary line each plus
# VIOLATION / INCONCLUSIVE / NOTE lines (used for the clean sweeps before evidence is committed)
cd /verif
tier=$1; seed=$2; shift 2
props=${@:-C01 C02 C03 C04 C05 C06 C07 C08 C09 C10 C11 C12 C13 C14 C15 C16 C17 C18 C19 C20}
for p in $props; do
  out=$(VERIF_SEED=$seed ./check $p $tier 2>&1); rc=$?
  echo "$out" | grep -E "^VIOLATION|^INCONCLUSIVE|^NOTE|BUILD" | cut -c1-260
  echo "rc=$rc $(echo "$out" | tail -1 | cut -c1-200)"
done
