#!/bin/bash
# for every 'fixed:' entry: revert that fix in a scratch worktree of /repo HEAD and run the property's quick check: it must report again
cd /verif
grep "^fixed:" known_findings.jsonl | while read -r line; do
  prop=$(echo "$line" | sed -E 's/^fixed: property=(C[0-9]+) .*/\1/'); commit=$(echo "$line" | awk '{print $3}')
  wt=/tmp/wt-rev-$commit
  git -C /repo worktree add -q $wt HEAD 2>/dev/null || { echo "$prop $commit: worktree failed"; continue; }
  if git -C $wt revert -n $commit >/dev/null 2>&1; then
     out=$(VERIF_REPO=$wt ./check $prop quick 2>&1); rc=$?
     echo "$prop $commit reverted: rc=$rc $(echo "$out" | grep -c '^VIOLATION') violation line(s); $(echo "$out" | tail -1 | cut -c1-120)"
  else
     echo "$prop $commit: revert conflicts (later changes touch the same lines)"
  fi
  git -C /repo worktree remove --force $wt
done
