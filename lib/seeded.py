#!/usr/bin/env python3
"""seeded.py confirm <dir>            - confirm a seeded change in its scratch worktree (build, suite, demo with/without)
   seeded.py run <patch> <prop>...   - apply the patch to /repo, run ./check <prop> quick for each prop, revert, report
"""
import json, os, subprocess, sys, time
ENV = dict(os.environ, GOFLAGS="-mod=mod", GOPROXY="off", GOSUMDB="off", GOTOOLCHAIN="local")

def sh(cmd, cwd=None, timeout=3000):
    p = subprocess.run(cmd, cwd=cwd, env=ENV, shell=isinstance(cmd, str), stdout=subprocess.PIPE, stderr=subprocess.STDOUT, text=True, timeout=timeout)
    return p.returncode, p.stdout

def run(patch, props, tier="quick"):
    rc, out = sh(["git", "-C", "/repo", "status", "--porcelain"])
    if out.strip():
        print("refusing: /repo is not clean"); return 2
    rc, out = sh(["git", "-C", "/repo", "apply", "--whitespace=nowarn", patch])
    if rc != 0:
        print("patch does not apply:", out); return 2
    res = {}
    try:
        for p in props:
            t0 = time.time()
            rc, out = sh(["./check", p, tier], cwd="/verif", timeout=7200)
            lines = [l for l in out.splitlines() if l.startswith("VIOLATION") or l.startswith("KNOWN-FINDING") or l.startswith("INCONCLUSIVE") or l.startswith("BUILD-FAILED")]
            res[p] = {"rc": rc, "wall": round(time.time() - t0), "lines": [l[:400] for l in lines[:8]], "summary": out.strip().splitlines()[-1][:300] if out.strip() else ""}
            print(p, "rc=%d" % rc, res[p]["summary"]); [print("   ", l[:300]) for l in lines[:6]]
    finally:
        sh(["git", "-C", "/repo", "checkout", "--", "."])
        sh(["git", "-C", "/repo", "clean", "-fdq"])
    return res

if __name__ == "__main__":
    if sys.argv[1] == "run":
        r = run(sys.argv[2], sys.argv[3:])
        print(json.dumps(r))
