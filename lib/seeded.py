#!/usr/bin/env python3
"""seeded.py confirm <dir>            - confirm a seeded change in its scratch worktree (build, suite, demo with/without)
   seeded.py run <patch> <prop>...   - apply the patch to /repo, run ./check <prop> quick for each prop, revert, report
"""
import json, os, subprocess, sys, time
ENV = dict(os.environ, GOFLAGS="-mod=mod", GOPROXY="off", GOSUMDB="off", GOTOOLCHAIN="local")

def sh(cmd, cwd=None, timeout=3000):
    p = subprocess.run(cmd, cwd=cwd, env=ENV, shell=isinstance(cmd, str), stdout=subprocess.PIPE, stderr=subprocess.STDOUT, text=True, timeout=timeout)
    return p.returncode, p.stdout

def run(patch, props, tier="quick"):
    """Applies the patch in a throw-away worktree of /repo and points the checks at it (VERIF_REPO), so that
    checks running concurrently against /repo itself are not disturbed. Equivalent to
    `git -C /repo apply <patch>; ./check ...; git -C /repo checkout -- .`."""
    wt = "/tmp/seedrun-%d" % os.getpid()
    sh(["git", "-C", "/repo", "worktree", "remove", "--force", wt])
    rc, out = sh(["git", "-C", "/repo", "worktree", "add", "-q", wt, "HEAD"])
    if rc != 0:
        print("cannot create worktree:", out); return 2
    res = {}
    try:
        rc, out = sh(["git", "-C", wt, "apply", "--whitespace=nowarn", os.path.abspath(patch)])
        if rc != 0:
            print("patch does not apply:", out); return 2
        env = dict(ENV, VERIF_REPO=wt)
        for p in props:
            t0 = time.time()
            pr = subprocess.run(["./check", p, tier], cwd="/verif", env=env, stdout=subprocess.PIPE, stderr=subprocess.STDOUT, text=True, timeout=7200)
            rc, out = pr.returncode, pr.stdout
            lines = [l for l in out.splitlines() if l.startswith("VIOLATION") or l.startswith("KNOWN-FINDING") or l.startswith("INCONCLUSIVE") or l.startswith("BUILD-FAILED")]
            res[p] = {"rc": rc, "wall": round(time.time() - t0), "lines": [l[:400] for l in lines[:8]], "summary": out.strip().splitlines()[-1][:300] if out.strip() else ""}
            print(p, "rc=%d" % rc, res[p]["summary"]); [print("   ", l[:300]) for l in lines[:6]]
    finally:
        sh(["git", "-C", "/repo", "worktree", "remove", "--force", wt])
    return res

if __name__ == "__main__":
    if sys.argv[1] == "run":
        r = run(sys.argv[2], sys.argv[3:])
        print(json.dumps(r))
