#!/bin/sh
# Pre-warms the Go build cache for the harness (optional; every check rebuilds
# from /repo's working tree anyway). Offline.
set -e
cd "$(dirname "$0")"
export GOFLAGS=-mod=mod GOPROXY=off GOSUMDB=off GOTOOLCHAIN=local
B=/tmp/vf-setup-$$
mkdir -p $B/src
rsync -a --delete --exclude .git /repo/ $B/src/
cp -r harness/inject/. $B/src/
(cd $B/src && go mod edit -require=github.com/anishathalye/porcupine@v1.3.0 && go build -race -tags verif -trimpath -o $B/driver ./verifharness/cmd/driver) || { rm -rf $B; exit 1; }
# oracle self-tests on synthetic logs: a conforming trace passes, a hand-written violation of each clause is flagged
(cd $B/src && go test -tags verif -vet=off -count=1 -run TestOracleSelf ./verifharness/cmd/driver/) || { rm -rf $B; echo "oracle self-tests FAILED"; exit 1; }
rm -rf $B
echo setup ok
