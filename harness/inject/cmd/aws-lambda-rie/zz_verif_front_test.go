package main

// Engine F of the verification harness: drives the real front-end handler
// (InvokeHandler / InitHandler / ResponseWriterProxy in this package) in
// process, on top of the scripted environment of package sc. Injected into a
// scratch copy of the repository by /verif/check; never part of /repo.

import (
	"go.amzn.com/lambda/interop"
	"io"
	"bytes"
	"encoding/base64"
	"encoding/json"
	"fmt"
	"net/http/httptest"
	"os"
	"strings"
	"sync"
	"testing"
	"time"

	"go.amzn.com/verifharness/fw"
	"go.amzn.com/verifharness/sc"
	"go.amzn.com/verifharness/vh"
)

func TestVerifFront(t *testing.T) {
	args := strings.Fields(os.Getenv("VERIF_ARGS"))
	if len(args) == 0 {
		t.Skip("VERIF_ARGS not set")
	}
	fw.Main(args)
	// the verdict is in the journal; race reports go to GORACE's log_path and must not turn into a test failure
	os.Exit(0)
}

func init() {
	fw.Register("C01", genFront("C01"))
	fw.Register("C05", genFront("C05"))
	fw.Register("C06", genFront("C06"))
	fw.Register("C10", genFront("C10"))
	fw.Register("C14", genFront("C14"))
	fw.Register("C16", genFront("C16"))
}

type frontDesc struct {
	Prop string `json:"-"`
	Kind string `json:"kind"`
	Arg  string `json:"arg,omitempty"`
	N    int    `json:"n,omitempty"`
}

func genFront(prop string) fw.Generator {
	return func(tier string, seed int64) []fw.Case {
		var cases []fw.Case
		add := func(d frontDesc) {
			d.Prop = prop
			cases = append(cases, fw.Case{ID: fmt.Sprintf("%s/front/%s/%s/%d", prop, d.Kind, d.Arg, d.N), Class: "front:" + d.Kind, Desc: d, Timeout: 120 * time.Second, Run: func(c *fw.Ctx) { runFront(c, d) }})
		}
		reps := 2
		if tier == "thorough" {
			reps = 10
		}
		switch prop {
		case "C01":
			for i := 0; i < reps; i++ {
				add(frontDesc{Kind: "roundtrip", N: i})
			}
			add(frontDesc{Kind: "bad-client-context"})
			add(frontDesc{Kind: "timeout", Arg: "responds-then-stalls"}) // exactly one outcome
		case "C05":
			add(frontDesc{Kind: "timeout", Arg: "runtime-stalls"})
			add(frontDesc{Kind: "timeout", Arg: "responds-then-stalls"})
			add(frontDesc{Kind: "timeout", Arg: "extension-never-registers"})
		case "C06":
			for _, a := range []string{"crash-after-next", "init-error", "crash-after-response", "ext-crash"} {
				add(frontDesc{Kind: "failure", Arg: a})
			}
		case "C10":
			for i := 0; i < reps; i++ {
				add(frontDesc{Kind: "concurrent", N: 2 + i%3})
			}
			// the extra callers arrive after the runtime's reply was sent, before the runtime is back at next
			add(frontDesc{Kind: "concurrent", N: 2, Arg: "after-response"})
			add(frontDesc{Kind: "concurrent", N: 3, Arg: "after-response"})
		case "C14":
			add(frontDesc{Kind: "oversize"})
		case "C16":
			add(frontDesc{Kind: "environ"})
		}
		return cases
	}
}

var frontEnvMu sync.Mutex
var frontBootstrap interop.Bootstrap
var frontBootstrapFor *sc.World

type frontResp struct {
	Code int
	Body []byte
}

func frontInvoke(w *sc.World, body []byte, hdr map[string]string) frontResp {
	rec := httptest.NewRecorder()
	var rd io.Reader = bytes.NewReader(body)
	if hdr["__chunked"] != "" {
		// a client that does not announce the length (Transfer-Encoding: chunked): ContentLength is -1
		rd = struct{ io.Reader }{rd}
	}
	req := httptest.NewRequest("POST", "/2015-03-31/functions/function/invocations", rd)
	for k, v := range hdr {
		if strings.HasPrefix(k, "__") {
			continue
		}
		req.Header.Set(k, v)
	}
	w.E.Log.Add(vh.Event{Src: "http", Kind: "call", Op: "POST invocations", Len: len(body)})
	// one bootstrap object per emulator instance, created once like main() does - the real one
	if frontBootstrapFor != w {
		frontBootstrapFor, frontBootstrap = w, NewSimpleBootstrap([]string{"/var/runtime/bootstrap"}, w.E.Root)
	}
	InvokeHandler(rec, req, w.E.API, frontBootstrap)
	w.E.Log.Add(vh.Event{Src: "http", Kind: "ret", Op: "POST invocations", Status: rec.Code, Len: rec.Body.Len()})
	return frontResp{rec.Code, rec.Body.Bytes()}
}

func runFront(c *fw.Ctx, d frontDesc) {
	frontEnvMu.Lock()
	defer frontEnvMu.Unlock()
	initDone = false
	for _, k := range []string{"AWS_LAMBDA_FUNCTION_TIMEOUT", "AWS_LAMBDA_FUNCTION_NAME", "AWS_LAMBDA_FUNCTION_HANDLER", "_HANDLER", "WEIRD", "EMPTYVAL", "AWS_ACCESS_KEY_ID", "AWS_LAMBDA_LOG_GROUP_NAME", "AWS_LAMBDA_LOG_STREAM_NAME"} {
		os.Unsetenv(k)
	}
	P := d.Prop
	timeoutS := "20"
	if d.Kind == "timeout" {
		timeoutS = "1"
	}
	os.Setenv("AWS_LAMBDA_FUNCTION_TIMEOUT", timeoutS)
	exts := []string{}
	if d.Arg == "extension-never-registers" || d.Arg == "ext-crash" || d.Kind == "environ" {
		exts = []string{"ext0"}
	}
	w, err := sc.NewWorld(vh.Config{Extensions: exts})
	if err != nil {
		c.Inconclusive("harness: " + err.Error())
		return
	}
	defer w.Close()
	type seen struct {
		ID, CC, ARN string
		Body        []byte
	}
	var mu sync.Mutex
	responded := false
	var got []seen
	respFor := func(ev []byte) []byte {
		if len(ev) > 1<<20 {
			// keep the response below the response size limit
			return append([]byte("FRONT-RESP-DIGEST:"+vh.Digest(ev)+":"), ev[:1<<20]...)
		}
		return append([]byte("FRONT-RESP:"), ev...)
	}
	mode := d.Arg
	w.RtPlan = func(gen int, p *vh.Proc) vh.ExecPlan {
		o := sc.RtOpts{}
		if mode == "init-error" && gen == 1 {
			o.BeforeFirstNext = func(p *vh.Proc, pt *vh.Party) *vh.Exit {
				pt.InitError([]byte(`{"errorMessage":"front init error","errorType":"Runtime.X"}`), map[string]string{"Lambda-Runtime-Function-Error-Type": "Runtime.X"})
				return &vh.Exit{Code: 1}
			}
		}
		o.Handle = func(p *vh.Proc, pt *vh.Party, n int, ev *vh.Resp) *vh.Exit {
			mu.Lock()
			got = append(got, seen{ev.ReqID(), ev.Header.Get("Lambda-Runtime-Client-Context"), ev.Header.Get("Lambda-Runtime-Invoked-Function-Arn"), ev.Body})
			mu.Unlock()
			if gen == 1 {
				switch mode {
				case "runtime-stalls":
					return sc.Stall(p)
				case "responds-then-stalls":
					// the answer is posted in time, but the runtime never comes back for the next event
					pt.Respond(ev.ReqID(), respFor(ev.Body), nil)
					return sc.Stall(p)
				case "crash-after-next":
					return &vh.Exit{Code: 3}
				case "crash-after-response":
					pt.Respond(ev.ReqID(), respFor(ev.Body), nil)
					return &vh.Exit{Signal: 11}
				}
			}
			if d.Kind == "oversize" && n == 0 {
				pt.Respond(ev.ReqID(), make([]byte, 6*1024*1024+101), nil)
				return nil
			}
			if d.Kind == "concurrent" && mode == "after-response" && n == 0 {
				// answer at once, come back for the next event only later: the invocation stays in flight meanwhile
				pt.Respond(ev.ReqID(), respFor(ev.Body), nil)
				mu.Lock()
				responded = true
				mu.Unlock()
				p.Sleep(120 * time.Millisecond)
				return nil
			}
			if d.Kind == "concurrent" {
				p.Sleep(60 * time.Millisecond)
			}
			pt.Respond(ev.ReqID(), respFor(ev.Body), nil)
			return nil
		}
		return vh.ExecPlan{Behave: w.RtLoop(o)}
	}
	w.ExtPlan = func(base string, gen int, p *vh.Proc) vh.ExecPlan {
		o := sc.ExtOpts{Events: []string{"INVOKE", "SHUTDOWN"}}
		if gen == 1 && mode == "extension-never-registers" {
			o.BeforeRegister = func(p *vh.Proc, pt *vh.Party) *vh.Exit { return sc.Stall(p) }
		}
		if gen == 1 && mode == "ext-crash" {
			o.OnEvent = func(p *vh.Proc, pt *vh.Party, n int, ev *vh.Resp) *vh.Exit { return &vh.Exit{Code: 9} }
		}
		return vh.ExecPlan{Behave: w.ExtLoop(o)}
	}
	r := sc.Rng(c.Seed, fmt.Sprintf("front%s%d", d.Kind, d.N))

	switch d.Kind {
	case "roundtrip":
		os.Setenv("AWS_LAMBDA_FUNCTION_NAME", fmt.Sprintf("fn-front-%d", d.N))
		sizes := []int{0, 1, 17, 65536, 1 << 20, 6*1024*1024 + 100, 300, 70000, 5}
		for i, sz := range sizes {
			body := sc.RandBytes(r, sz)
			cc := fmt.Sprintf(`{"custom":{"k":"v%d é"},"n":%d}`, i, r.Intn(1000))
			if i%3 == 2 {
				cc = ""
			}
			if i%3 == 1 {
				// runs of six guarantee a 3-byte-aligned triple: the standard base64 form contains '+' and '/'
				// (the two symbols in which the standard and the URL alphabet differ)
				cc = fmt.Sprintf(`{"custom":{"k":"v%d ~~~~~~ ?????? >>>>>>"},"u":"/p?x=1>>&y=~","n":%d}`, i, r.Intn(1000))
			}
			h := map[string]string{"X-Amzn-Trace-Id": fmt.Sprintf("Root=1-%08x-aaaa;Sampled=1", i)}
			if cc != "" {
				h["X-Amz-Client-Context"] = base64.StdEncoding.EncodeToString([]byte(cc))
				if i%3 == 1 {
					if !strings.Contains(h["X-Amz-Client-Context"], "+") || !strings.Contains(h["X-Amz-Client-Context"], "/") {
						c.Inconclusive("harness: the symbol-rich client context does not encode to '+' and '/'")
						return
					}
					c.Clause("front_client_context_symbols")
				}
			}
			if i%2 == 1 || i >= 7 {
				h["__chunked"] = "1"
			}
			resp := frontInvoke(w, body, h)
			mu.Lock()
			n := len(got)
			var s seen
			if n > 0 {
				s = got[n-1]
			}
			mu.Unlock()
			if !c.Check(n == i+1, "front_dispatched_once", P+"/front/dispatch-count", fmt.Sprintf("HTTP invocation %d was dispatched %d times in total", i, n), nil) {
				return
			}
			c.Check(bytes.Equal(s.Body, body), "front_event_exact", P+"/front/event-bytes", fmt.Sprintf("runtime received %d bytes, HTTP caller posted %d", len(s.Body), len(body)), nil)
			c.Check(s.CC == cc, "front_client_context_decoded", P+"/front/client-context", "client context was not delivered base64-decoded", []string{s.CC, cc})
			c.Check(s.ARN == fmt.Sprintf("arn:aws:lambda:us-east-1:012345678912:function:fn-front-%d", d.N), "front_arn", P+"/front/arn", "function ARN", s.ARN)
			c.Check(resp.Code == 200 && bytes.Equal(resp.Body, respFor(body)), "front_response_exact", P+"/front/response-bytes/"+fmt.Sprint(resp.Code), fmt.Sprintf("HTTP caller received status %d and %d bytes, runtime posted %d", resp.Code, len(resp.Body), len(respFor(body))), nil)
		}
	case "bad-client-context":
		resp := frontInvoke(w, []byte("x"), map[string]string{"X-Amz-Client-Context": "%%%not-base64%%%"})
		mu.Lock()
		n := len(got)
		mu.Unlock()
		c.Check(resp.Code == 500 && n == 0, "front_bad_context_refused", P+"/front/bad-client-context", fmt.Sprintf("invalid base64 client context: status %d, dispatched %d", resp.Code, n), nil)
		resp2 := frontInvoke(w, []byte("y"), nil)
		c.Check(resp2.Code == 200 && bytes.Equal(resp2.Body, respFor([]byte("y"))), "front_next_ok", P+"/front/after-bad-context", "the invocation after a refused one failed", resp2.Code)
	case "timeout":
		t0 := time.Now()
		resp := frontInvoke(w, []byte("stall"), nil)
		el := time.Since(t0)
		if mode == "responds-then-stalls" {
			// either the response or the timeout outcome - never both
			onlyResp := bytes.Equal(resp.Body, respFor([]byte("stall")))
			onlyTimeout := string(resp.Body) == "Task timed out after 1.00 seconds"
			c.Check(resp.Code == 200 && (onlyResp || onlyTimeout), "front_response_xor_timeout", P+"/front/timeout-and-response", "an invocation answered in time by a runtime that then stalled got neither exactly the response nor exactly the timeout message", []string{fmt.Sprint(resp.Code), string(resp.Body)})
		} else {
			c.Check(resp.Code == 200 && string(resp.Body) == "Task timed out after 1.00 seconds", "front_timeout_text", P+"/front/timeout-text", "timed-out invocation was not answered with the timeout message", []string{fmt.Sprint(resp.Code), string(resp.Body)})
		}
		c.Check(el >= 995*time.Millisecond && el <= 1*time.Second+2*time.Second+1800*time.Millisecond, "front_timeout_bounded", P+"/front/timeout-duration", fmt.Sprintf("answered after %.0f ms", float64(el)/1e6), nil)
		for _, p := range sc.ProcsOfGen(w, 1) {
			c.Check(!p.Alive(), "front_reaped", P+"/front/not-reaped", "process still running after the timeout answer", p.Name)
		}
		os.Setenv("AWS_LAMBDA_FUNCTION_TIMEOUT", "20")
		resp2 := frontInvoke(w, []byte("after"), nil)
		c.Check(resp2.Code == 200 && bytes.Equal(resp2.Body, respFor([]byte("after"))), "front_next_ok", P+"/front/after-timeout", "the invocation after a timeout failed", []string{fmt.Sprint(resp2.Code), string(resp2.Body)})
	case "failure":
		if mode == "init-error" {
			time.Sleep(20 * time.Millisecond)
		}
		resp := frontInvoke(w, []byte("doomed"), nil)
		c.Check(resp.Code == 502, "front_failure_502", fmt.Sprintf("%s/front/failure-status/%s/%d", P, mode, resp.Code), fmt.Sprintf("%s: HTTP status %d instead of 502", mode, resp.Code), string(resp.Body))
		var fe struct{ ErrorType, ErrorMessage string }
		json.Unmarshal(resp.Body, &fe)
		switch mode {
		case "crash-after-next":
			c.Check(fe.ErrorType == "Runtime.ExitError", "front_failure_body", P+"/front/failure-body/"+mode, "body does not name Runtime.ExitError", string(resp.Body))
		case "ext-crash":
			c.Check(fe.ErrorType == "Extension.Crash" || bytes.Equal(resp.Body, respFor([]byte("doomed"))), "front_failure_body", P+"/front/failure-body/"+mode, "body names neither Extension.Crash nor the delivered response", string(resp.Body))
		case "init-error":
			c.Check(strings.Contains(string(resp.Body), "front init error"), "front_failure_body", P+"/front/failure-body/"+mode, "body is not the runtime's init error payload", string(resp.Body))
		case "crash-after-response":
			c.Check(bytes.Equal(resp.Body, respFor([]byte("doomed"))), "front_failure_body", P+"/front/failure-body/"+mode, "body is not the response the runtime had delivered", string(resp.Body))
		}
		resp2 := frontInvoke(w, []byte("after"), nil)
		c.Check(resp2.Code == 200 && bytes.Equal(resp2.Body, respFor([]byte("after"))), "front_next_ok", P+"/front/after-failure/"+mode, "the invocation after a failure did not succeed", []string{fmt.Sprint(resp2.Code), string(resp2.Body)})
	case "concurrent":
		var wg sync.WaitGroup
		res := make([]frontResp, d.N)
		// first caller goes first; the others arrive while the runtime is working (it sleeps 60 ms)
		wg.Add(1)
		go func() { defer wg.Done(); res[0] = frontInvoke(w, []byte("first"), nil) }()
		dl := time.Now().Add(5 * time.Second)
		for time.Now().Before(dl) {
			mu.Lock()
			n := len(got)
			if mode == "after-response" && !responded {
				n = 0
			}
			mu.Unlock()
			if n > 0 {
				break
			}
			time.Sleep(200 * time.Microsecond)
		}
		if mode == "after-response" {
			time.Sleep(10 * time.Millisecond) // the reply has been sent; the runtime is not back at next for another ~100 ms
		}
		for i := 1; i < d.N; i++ {
			wg.Add(1)
			go func(i int) { defer wg.Done(); res[i] = frontInvoke(w, []byte(fmt.Sprintf("extra-%d", i)), nil) }(i)
		}
		wg.Wait()
		c.Check(res[0].Code == 200 && bytes.Equal(res[0].Body, respFor([]byte("first"))), "front_first_unaffected", P+"/front/first-disturbed", "the in-flight HTTP invocation was disturbed by concurrent callers", []string{fmt.Sprint(res[0].Code), string(res[0].Body)})
		for i := 1; i < d.N; i++ {
			c.Check(res[i].Code == 400 && len(res[i].Body) == 0, "front_extra_400", fmt.Sprintf("%s/front/extra-status/%d", P, res[i].Code), fmt.Sprintf("concurrent caller %d got status %d", i, res[i].Code), string(res[i].Body))
		}
		mu.Lock()
		n := len(got)
		mu.Unlock()
		c.Check(n == 1, "front_no_extra_dispatch", P+"/front/extra-dispatched", "a refused caller's event reached the runtime", n)
		resp2 := frontInvoke(w, []byte("after"), nil)
		c.Check(resp2.Code == 200 && bytes.Equal(resp2.Body, respFor([]byte("after"))), "front_next_ok", P+"/front/after-concurrent", "the next sequential invocation failed", resp2.Code)
	case "oversize":
		resp := frontInvoke(w, []byte("big"), nil)
		var fe struct{ ErrorType, ErrorMessage string }
		json.Unmarshal(resp.Body, &fe)
		c.Check(resp.Code == 200 && fe.ErrorType == "Function.ResponseSizeTooLarge" && strings.Contains(fe.ErrorMessage, "6291557") && strings.Contains(fe.ErrorMessage, "6291556"), "front_oversize_error", P+"/front/oversize", "oversized response not reported as Function.ResponseSizeTooLarge with both sizes", string(resp.Body))
		n0 := len(w.E.Sup.Procs())
		resp2 := frontInvoke(w, []byte("after"), nil)
		c.Check(resp2.Code == 200 && bytes.Equal(resp2.Body, respFor([]byte("after"))) && len(w.E.Sup.Procs()) == n0, "front_same_environment", P+"/front/after-oversize", "environment was reset or failed after an oversized response", resp2.Code)
	case "environ":
		os.Setenv("WEIRD", "a=b=c")
		os.Setenv("EMPTYVAL", "")
		os.Setenv("AWS_LAMBDA_FUNCTION_HANDLER", "front.handler")
		os.Setenv("AWS_ACCESS_KEY_ID", "AKIA-FRONT")
		resp := frontInvoke(w, []byte("env"), nil)
		c.Check(resp.Code == 200, "front_env_invoke_ok", P+"/front/env-invoke", "invocation failed", resp.Code)
		p := w.E.WaitRuntime(1, time.Second)
		if c.Check(p != nil, "front_env_runtime", P+"/front/env-runtime", "no runtime", nil) {
			c.Check(p.Env["WEIRD"] == "a=b=c", "front_env_equals_intact", P+"/front/env-split", "a forwarded variable whose value contains '=' was altered", p.Env["WEIRD"])
			v, ok := p.Env["EMPTYVAL"]
			c.Check(ok && v == "", "front_env_empty_value", P+"/front/env-empty", "a forwarded variable with an empty value was lost", nil)
			c.Check(p.Env["_HANDLER"] == "front.handler", "front_env_handler", P+"/front/env-handler", "handler from AWS_LAMBDA_FUNCTION_HANDLER not used", p.Env["_HANDLER"])
			c.Check(p.Env["AWS_ACCESS_KEY_ID"] == "AKIA-FRONT", "front_env_credentials", P+"/front/env-credentials", "credentials not forwarded", nil)
			c.Check(p.Env["AWS_LAMBDA_LOG_GROUP_NAME"] == "/aws/lambda/Functions" && p.Env["AWS_LAMBDA_FUNCTION_NAME"] == "test_function", "front_env_defaults", P+"/front/env-defaults", "documented defaults missing", nil)
			c.Check(p.Env["AWS_LAMBDA_RUNTIME_API"] == w.E.Addr, "front_env_api_address", P+"/front/env-api-address", "Runtime API address", p.Env["AWS_LAMBDA_RUNTIME_API"])
		}
		// a second initialisation of the same instance with other parameters: the new runtime gets the new ones
		w.E.Srv.Reset("explicit", 2000)
		initDone = false
		os.Setenv("WEIRD", "second=init")
		os.Setenv("AWS_LAMBDA_FUNCTION_HANDLER", "second.handler")
		os.Setenv("AWS_ACCESS_KEY_ID", "AKIA-SECOND")
		os.Setenv("AWS_LAMBDA_FUNCTION_NAME", "second_function")
		os.Setenv("AWS_LAMBDA_LOG_GROUP_NAME", "/container/defined/group")
		os.Setenv("AWS_LAMBDA_LOG_STREAM_NAME", "container/defined/stream")
		resp2 := frontInvoke(w, []byte("env2"), nil)
		c.Check(resp2.Code == 200, "front_env_invoke_ok", P+"/front/env-invoke-2", "invocation after re-initialisation failed", resp2.Code)
		var p2 *vh.Proc
		for _, q := range w.E.Sup.Procs() {
			if q.Role == "runtime" && q != p {
				p2 = q
			}
		}
		if c.Check(p2 != nil, "front_env_runtime", P+"/front/env-runtime-2", "no second runtime", nil) {
			ok := p2.Env["WEIRD"] == "second=init" && p2.Env["_HANDLER"] == "second.handler" && p2.Env["AWS_ACCESS_KEY_ID"] == "AKIA-SECOND" && p2.Env["AWS_LAMBDA_FUNCTION_NAME"] == "second_function"
			// container-defined log names reach the runtime AND the extensions (the defaults only fill gaps)
			for _, q := range w.E.Sup.Procs() {
				if q.Role != "ext" && q != p2 {
					continue
				}
				if q.Role == "ext" && q.Gen < p2.Gen {
					continue
				}
				okLog := q.Env["AWS_LAMBDA_LOG_GROUP_NAME"] == "/container/defined/group" && q.Env["AWS_LAMBDA_LOG_STREAM_NAME"] == "container/defined/stream"
				c.Check(okLog, "front_env_container_values_win", P+"/front/env-default-overrides-container/"+q.Role, "a container-defined log group / stream name was replaced by the built-in default for the "+q.Role+" process", fmt.Sprintf("group=%q stream=%q", q.Env["AWS_LAMBDA_LOG_GROUP_NAME"], q.Env["AWS_LAMBDA_LOG_STREAM_NAME"]))
			}
			c.Check(ok, "front_env_per_init", P+"/front/env-stale-after-reinit", "the runtime of a second initialisation did not get that initialisation's parameters", fmt.Sprintf("WEIRD=%q _HANDLER=%q AWS_ACCESS_KEY_ID=%q AWS_LAMBDA_FUNCTION_NAME=%q", p2.Env["WEIRD"], p2.Env["_HANDLER"], p2.Env["AWS_ACCESS_KEY_ID"], p2.Env["AWS_LAMBDA_FUNCTION_NAME"]))
		}
	}
	c.SetTrace(fmt.Sprintf("front/%s/%s/%d", d.Kind, d.Arg, d.N), true)
	if c.WantSample || c.Violated() {
		c.SetSample(sc.SampleLog(w, 60))
	}
}
