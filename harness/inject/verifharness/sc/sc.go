// Package sc holds the scenario helpers shared by the driver command and the
// front-end test binary: world assembly, autonomous runtime / extension
// behaviours, pause-point controller, trace normalisation.
package sc

import (
	"encoding/json"
	"fmt"
	"math/rand"
	"sort"
	"strings"
	"sync"
	"time"

	supvmodel "go.amzn.com/lambda/supervisor/model"
	"go.amzn.com/lambda/verifhook"
	"go.amzn.com/verifharness/vh"
)

// World is one emulator plus the scripted environment of a scenario.
type World struct {
	E  *vh.Emu
	Hk *HookCtl // pause-point controller (every arrival is logged)

	mu      sync.Mutex
	parties map[string]*vh.Party // by process name
	// behaviour selection per exec
	RtPlan  func(gen int, p *vh.Proc) vh.ExecPlan
	ExtPlan func(base string, gen int, p *vh.Proc) vh.ExecPlan
}

func NewWorld(cfg vh.Config) (*World, error) {
	e, err := vh.NewEmu(cfg)
	if err != nil {
		return nil, err
	}
	w := &World{E: e, parties: map[string]*vh.Party{}}
	w.Hk = NewHookCtl(e.Log)
	e.Sup.Plan = func(req *supvmodel.ExecRequest, p *vh.Proc) vh.ExecPlan {
		if p.Role == "runtime" {
			if w.RtPlan != nil {
				return w.RtPlan(p.Gen, p)
			}
			return vh.ExecPlan{Behave: w.RtLoop(RtOpts{})}
		}
		if w.ExtPlan != nil {
			return w.ExtPlan(p.Base, p.Gen, p)
		}
		return vh.ExecPlan{Behave: w.ExtLoop(ExtOpts{Events: []string{"INVOKE", "SHUTDOWN"}})}
	}
	return w, nil
}

func (w *World) Close() {
	w.Hk.ReleaseAll()
	verifhook.Set(nil)
	w.E.Close()
}

// Party returns (creating if needed) the HTTP party of process p.
func (w *World) Party(p *vh.Proc) *vh.Party {
	w.mu.Lock()
	defer w.mu.Unlock()
	if pt, ok := w.parties[p.Name]; ok {
		return pt
	}
	pt := w.E.PartyFor(p)
	w.parties[p.Name] = pt
	return pt
}

// AllParties returns the parties keyed by process name.
func (w *World) AllParties() map[string]*vh.Party {
	w.mu.Lock()
	defer w.mu.Unlock()
	res := map[string]*vh.Party{}
	for k, v := range w.parties {
		res[k] = v
	}
	return res
}

// ---- autonomous runtime ----

// RtOpts configures the autonomous runtime loop. Callbacks may return a
// non-nil Exit to end the process at that protocol step.
type RtOpts struct {
	BeforeFirstNext func(p *vh.Proc, pt *vh.Party) *vh.Exit
	// Handle processes event number n (0-based). Default: respond "R:"+event.
	Handle func(p *vh.Proc, pt *vh.Party, n int, ev *vh.Resp) *vh.Exit
	// AfterHandle runs after the response was posted, before the next poll.
	AfterHandle func(p *vh.Proc, pt *vh.Party, n int) *vh.Exit
	IgnoreTerm  bool
	TermExit    vh.Exit
	Snapshot    bool // call restore/next first
}

// EchoBody is the default response body for an event.
func EchoBody(ev []byte) []byte { return append([]byte("R:"), ev...) }

func (w *World) RtLoop(o RtOpts) vh.Behaviour {
	return func(p *vh.Proc) vh.Exit {
		pt := w.Party(p)
		res := make(chan vh.Exit, 1)
		go func() {
			if o.BeforeFirstNext != nil {
				if ex := o.BeforeFirstNext(p, pt); ex != nil {
					res <- *ex
					return
				}
			}
			if o.Snapshot {
				r := pt.RestoreNext()
				if r.Status != 200 {
					<-p.Ctx.Done()
					return
				}
			}
			for n := 0; ; n++ {
				ev := pt.Next()
				if ev.Err != nil || p.Ctx.Err() != nil {
					<-p.Ctx.Done()
					return
				}
				if ev.Status != 200 {
					// refused: nothing sensible to do; idle until killed
					<-p.Ctx.Done()
					return
				}
				if o.Handle != nil {
					if ex := o.Handle(p, pt, n, ev); ex != nil {
						res <- *ex
						return
					}
				} else {
					pt.Respond(ev.ReqID(), EchoBody(ev.Body), nil)
				}
				if o.AfterHandle != nil {
					if ex := o.AfterHandle(p, pt, n); ex != nil {
						res <- *ex
						return
					}
				}
			}
		}()
		term := p.Term
		if o.IgnoreTerm {
			term = nil
		}
		select {
		case ex := <-res:
			return ex
		case <-p.Ctx.Done():
			return vh.Exit{Signal: 9}
		case <-term:
			return o.TermExit
		case ex := <-p.ExitCh:
			return ex
		}
	}
}

// Stall blocks until the process is killed (returns nil so that the loop
// ends through the kill path).
func Stall(p *vh.Proc) *vh.Exit {
	<-p.Ctx.Done()
	return &vh.Exit{Signal: 9}
}

// ---- autonomous extension ----

type ExtOpts struct {
	Name           string // registration name (default: process base name)
	Events         []string
	Features       string
	BeforeRegister func(p *vh.Proc, pt *vh.Party) *vh.Exit
	AfterRegister  func(p *vh.Proc, pt *vh.Party, reg *vh.Resp) *vh.Exit
	// OnEvent is called for every event received. Default: continue (on
	// SHUTDOWN: exit 0).
	OnEvent        func(p *vh.Proc, pt *vh.Party, n int, ev *vh.Resp) *vh.Exit
	IgnoreShutdown bool
	IgnoreTerm     bool
}

type ExtEvent struct {
	EventType          string `json:"eventType"`
	DeadlineMs         int64  `json:"deadlineMs"`
	RequestID          string `json:"requestId"`
	InvokedFunctionArn string `json:"invokedFunctionArn"`
	ShutdownReason     string `json:"shutdownReason"`
	Tracing            struct {
		Type  string `json:"type"`
		Value string `json:"value"`
	} `json:"tracing"`
}

func ParseExtEvent(b []byte) ExtEvent {
	var e ExtEvent
	json.Unmarshal(b, &e)
	return e
}

func (w *World) ExtLoop(o ExtOpts) vh.Behaviour {
	return func(p *vh.Proc) vh.Exit {
		pt := w.Party(p)
		res := make(chan vh.Exit, 1)
		go func() {
			if o.BeforeRegister != nil {
				if ex := o.BeforeRegister(p, pt); ex != nil {
					res <- *ex
					return
				}
			}
			name := o.Name
			if name == "" {
				name = p.Base
			}
			reg := pt.Register(name, o.Events, o.Features)
			if o.AfterRegister != nil {
				if ex := o.AfterRegister(p, pt, reg); ex != nil {
					res <- *ex
					return
				}
			}
			if reg.Status != 200 {
				<-p.Ctx.Done()
				return
			}
			for n := 0; ; n++ {
				ev := pt.ExtNext()
				if ev.Err != nil || p.Ctx.Err() != nil {
					<-p.Ctx.Done()
					return
				}
				if ev.Status != 200 {
					<-p.Ctx.Done()
					return
				}
				if o.OnEvent != nil {
					if ex := o.OnEvent(p, pt, n, ev); ex != nil {
						res <- *ex
						return
					}
				}
				if ParseExtEvent(ev.Body).EventType == "SHUTDOWN" {
					if o.IgnoreShutdown {
						<-p.Ctx.Done()
						return
					}
					res <- vh.Exit{Code: 0}
					return
				}
			}
		}()
		term := p.Term
		if o.IgnoreTerm {
			term = nil
		}
		select {
		case ex := <-res:
			return ex
		case <-p.Ctx.Done():
			return vh.Exit{Signal: 9}
		case <-term:
			return vh.Exit{Signal: 15}
		case ex := <-p.ExitCh:
			return ex
		}
	}
}

// ---- hook control ----

// HookCtl installs a verifhook callback that can hold goroutines at named
// points until released by the scenario.
type HookCtl struct {
	mu      sync.Mutex
	holds   map[string]*hold
	delays  map[string]time.Duration
	arrived map[string]int
	log     *vh.Log
}

type hold struct {
	after    string // if set: hold the first arrival that follows the afterNth arrival at this other point
	afterNth int
	afterCnt int
	armed    bool
	nth     int // hold the n-th arrival (1-based); 0 = first
	seen    int
	reached chan struct{}
	release chan struct{}
	used    bool
}

func NewHookCtl(l *vh.Log) *HookCtl {
	h := &HookCtl{holds: map[string]*hold{}, delays: map[string]time.Duration{}, arrived: map[string]int{}, log: l}
	verifhook.ResetHits()
	verifhook.Set(h.point)
	return h
}

func (h *HookCtl) point(name string) {
	h.log.Add(vh.Event{Src: "hook", Kind: "hit", Op: name})
	h.mu.Lock()
	h.arrived[name]++
	for _, o := range h.holds {
		if o.after == name && !o.armed && !o.used {
			o.afterCnt++
			if o.afterCnt == o.afterNth {
				o.armed = true
			}
		}
	}
	hd := h.holds[name]
	d := h.delays[name]
	var wait *hold
	if hd != nil && !hd.used {
		if hd.after != "" {
			if hd.armed {
				hd.used = true
				wait = hd
			}
		} else {
			hd.seen++
			if hd.nth == 0 || hd.seen == hd.nth {
				hd.used = true
				wait = hd
			}
		}
	}
	h.mu.Unlock()
	if wait != nil {
		h.log.Add(vh.Event{Src: "hook", Kind: "hook", Op: name, Extra: map[string]string{"held": "1"}})
		close(wait.reached)
		select {
		case <-wait.release:
		case <-time.After(25 * time.Second):
		}
		h.log.Add(vh.Event{Src: "hook", Kind: "hook", Op: name, Extra: map[string]string{"released": "1"}})
		return
	}
	if d > 0 {
		time.Sleep(d)
	}
}

// Hold arranges for the nth (0 = first) arrival at point name to block.
func (h *HookCtl) Hold(name string, nth int) {
	h.mu.Lock()
	defer h.mu.Unlock()
	h.holds[name] = &hold{nth: nth, reached: make(chan struct{}), release: make(chan struct{})}
}

// HoldAfter arranges for the first arrival at name that follows the nth arrival at the point
// after to block (both points lie on one goroutine's path: the events watcher's).
func (h *HookCtl) HoldAfter(name, after string, nth int) {
	h.mu.Lock()
	defer h.mu.Unlock()
	h.holds[name] = &hold{after: after, afterNth: nth, reached: make(chan struct{}), release: make(chan struct{})}
}

// Delay makes every arrival at name sleep d.
func (h *HookCtl) Delay(name string, d time.Duration) {
	h.mu.Lock()
	defer h.mu.Unlock()
	h.delays[name] = d
}

// WaitHeld waits until a goroutine is blocked at name.
func (h *HookCtl) WaitHeld(name string, timeout time.Duration) bool {
	h.mu.Lock()
	hd := h.holds[name]
	h.mu.Unlock()
	if hd == nil {
		return false
	}
	select {
	case <-hd.reached:
		return true
	case <-time.After(timeout):
		return false
	}
}

// Release lets the held goroutine continue.
func (h *HookCtl) Release(name string) {
	h.mu.Lock()
	hd := h.holds[name]
	h.mu.Unlock()
	if hd != nil {
		select {
		case <-hd.release:
		default:
			close(hd.release)
		}
	}
}

// ReleaseAll releases every hold (scenario teardown).
func (h *HookCtl) ReleaseAll() {
	h.mu.Lock()
	names := []string{}
	for n := range h.holds {
		names = append(names, n)
	}
	h.mu.Unlock()
	for _, n := range names {
		h.Release(n)
	}
}

func (h *HookCtl) Arrived() map[string]int {
	h.mu.Lock()
	defer h.mu.Unlock()
	res := map[string]int{}
	for k, v := range h.arrived {
		res[k] = v
	}
	return res
}

// ---- trace normalisation ----

// NormTrace renders the event log as a normalised string: request ids are
// replaced by ordinals, generation numbers by offsets, times dropped.
func NormTrace(evs []vh.Event, keep func(vh.Event) bool) string {
	ids := map[string]int{}
	var sb strings.Builder
	for _, e := range evs {
		if keep != nil && !keep(e) {
			continue
		}
		id := ""
		if e.ID != "" {
			n, ok := ids[e.ID]
			if !ok {
				n = len(ids) + 1
				ids[e.ID] = n
			}
			id = fmt.Sprintf("#%d", n)
		}
		fmt.Fprintf(&sb, "%s/%s/%s/%d/%s/%s;", NormSrc(e.Src), e.Kind, NormOp(e.Op), e.Status, e.Etype, id)
	}
	return sb.String()
}

func NormSrc(s string) string {
	// rt:runtime-3 -> rt ; ext:extension-foo-3 -> ext:foo
	if strings.HasPrefix(s, "rt:") {
		return "rt"
	}
	if strings.HasPrefix(s, "ext:extension-") {
		t := strings.TrimPrefix(s, "ext:extension-")
		if i := strings.LastIndex(t, "-"); i >= 0 {
			t = t[:i]
		}
		return "ext:" + t
	}
	if strings.HasPrefix(s, "caller:") {
		return "caller"
	}
	return s
}

func NormOp(s string) string {
	// runtime-3 -> runtime ; extension-foo-3 -> extension-foo
	if strings.HasPrefix(s, "runtime-") || strings.HasPrefix(s, "extension-") {
		if i := strings.LastIndex(s, "-"); i >= 0 {
			return s[:i]
		}
	}
	return s
}

// ---- misc ----

func Rng(seed int64, salt string) *rand.Rand {
	h := int64(1469598103934665603)
	for _, c := range salt {
		h ^= int64(c)
		h *= 1099511628211
	}
	return rand.New(rand.NewSource(seed ^ h))
}

func RandBytes(r *rand.Rand, n int) []byte {
	b := make([]byte, n)
	r.Read(b)
	return b
}

func SortedInts(m map[int]bool) []int {
	var res []int
	for k := range m {
		res = append(res, k)
	}
	sort.Ints(res)
	return res
}

func SampleLog(w *World, max int) []string {
	return vh.FmtEvents(w.E.Log.Snapshot(), max)
}

// ProcsOfGen returns the processes exec'd with generation g.
func ProcsOfGen(w *World, g int) []*vh.Proc {
	var res []*vh.Proc
	for _, p := range w.E.Sup.Procs() {
		if p.Gen == g {
			res = append(res, p)
		}
	}
	return res
}

func MaxGen(w *World) int {
	g := 0
	for _, p := range w.E.Sup.Procs() {
		if p.Gen > g {
			g = p.Gen
		}
	}
	return g
}

// StaleRegisterLeak detects the recorded defect "in-flight register request of
// a killed process is served in a later generation": a register call that was
// never acknowledged to its (meanwhile dead) sender, and a later process
// registering under the same name being refused with InvalidExtensionState.
func StaleRegisterLeak(w *World) bool {
	evs := w.E.Log.Snapshot()
	unacked := map[string]int64{} // name -> seq of the unacknowledged call
	calls := map[int64]vh.Event{}
	for _, e := range evs {
		if e.Kind == "call" && e.Op == "register" {
			calls[e.Seq] = e
		}
		if e.Kind == "ret" && e.Op == "register" {
			cl := calls[e.Ref]
			if e.Status == 0 {
				unacked[cl.Extra["name"]] = cl.Seq
			} else if e.Status == 403 && e.Etype == "Extension.InvalidExtensionState" {
				if s, ok := unacked[cl.Extra["name"]]; ok && s < cl.Seq && cl.Src != calls[s].Src {
					return true
				}
			}
		}
	}
	// the refusal may also be observed before the stale call's cancellation is logged
	for _, e := range evs {
		if e.Kind == "ret" && e.Op == "register" && e.Status == 403 && e.Etype == "Extension.InvalidExtensionState" {
			cl := calls[e.Ref]
			for s, other := range calls {
				if s < cl.Seq && other.Extra["name"] == cl.Extra["name"] && other.Src != cl.Src {
					acked := false
					for _, r := range evs {
						if r.Kind == "ret" && r.Ref == s && r.Status != 0 {
							acked = true
						}
					}
					if !acked {
						return true
					}
				}
			}
		}
	}
	return false
}

// Quiesce waits until every response/error call issued by a party has its
// ret record (the client side has caught up), or the timeout expires.
func Quiesce(w *World, max time.Duration) {
	dl := time.Now().Add(max)
	for time.Now().Before(dl) {
		open := map[int64]bool{}
		for _, e := range w.E.Log.Snapshot() {
			if e.Kind == "call" && (e.Op == "response" || e.Op == "error") {
				open[e.Seq] = true
			}
			if e.Kind == "ret" && e.Ref != 0 {
				delete(open, e.Ref)
			}
		}
		if len(open) == 0 {
			return
		}
		time.Sleep(300 * time.Microsecond)
	}
}

// StaleNextLeak detects the second form of the recorded defect "an in-flight
// request of a killed process is applied to a later generation": the FIRST
// next of a freshly started runtime is refused with ErrGateIntegrity (somebody
// else already arrived at this generation's init barrier) while an older
// runtime process died with its own first next still unanswered.
func StaleNextLeak(w *World) bool {
	evs := w.E.Log.Snapshot()
	firstNext := map[string]vh.Event{} // src -> first next call
	rets := map[int64]vh.Event{}
	for _, e := range evs {
		if e.Kind == "call" && e.Op == "next" && strings.HasPrefix(e.Src, "rt:") {
			if _, ok := firstNext[e.Src]; !ok {
				firstNext[e.Src] = e
			}
		}
		if e.Kind == "ret" && e.Op == "next" {
			rets[e.Ref] = e
		}
	}
	for src, cl := range firstNext {
		r, ok := rets[cl.Seq]
		if !ok || r.Status != 403 || !strings.Contains(r.Extra["body"], "ErrGateIntegrity") {
			continue
		}
		for osrc, ocl := range firstNext {
			if osrc == src || ocl.Seq > cl.Seq {
				continue
			}
			or, ok := rets[ocl.Seq]
			if !ok || or.Status == 0 {
				return true // an older runtime's first next was never answered
			}
		}
	}
	return false
}

func StaleRequestLeak(w *World) bool { return StaleRegisterLeak(w) || StaleNextLeak(w) }
