// Command actor is the scripted runtime / extension executable used by engine P
// (the real aws-lambda-rie binary with real child processes). Its behaviour is
// read from the JSON file named by VERIF_ACTOR_SCRIPT; it logs what it
// observed as JSON lines to VERIF_ACTOR_LOG.<pid>. Standard library only.
package main

import (
	"bytes"
	"encoding/json"
	"fmt"
	"io"
	"net/http"
	"os"
	"os/signal"
	"path/filepath"
	"strings"
	"syscall"
	"time"
)

type script struct {
	// per role ("runtime" or the extension's base name): behaviour per process generation ordinal (0 = first start)
	Roles map[string][]behaviour `json:"roles"`
}

type behaviour struct {
	Mode       string `json:"mode"`        // echo | crash-after-next | exit-before-next | stall | ignore-term-stall | init-error | respond-then-exit | ext | ext-crash-on-event | ext-ignore-shutdown
	ExitCode   int    `json:"exit_code"`
	Signal     int    `json:"signal"`
	RespPrefix string `json:"resp_prefix"`
	DelayMs    int    `json:"delay_ms"`
	Events     []string `json:"events"`
}

var logf *os.File

func logj(m map[string]interface{}) {
	m["pid"] = os.Getpid()
	m["t"] = time.Now().UnixNano()
	b, _ := json.Marshal(m)
	logf.Write(append(b, '\n'))
}

func main() {
	base := os.Getenv("VERIF_ACTOR_LOG")
	logf, _ = os.OpenFile(fmt.Sprintf("%s.%d", base, os.Getpid()), os.O_CREATE|os.O_WRONLY|os.O_APPEND, 0o644)
	role := "runtime"
	if dir := filepath.Base(filepath.Dir(os.Args[0])); dir == "extensions" {
		role = filepath.Base(os.Args[0])
	}
	var sc script
	b, err := os.ReadFile(os.Getenv("VERIF_ACTOR_SCRIPT"))
	if err != nil || json.Unmarshal(b, &sc) != nil {
		logj(map[string]interface{}{"ev": "no-script", "err": fmt.Sprint(err)})
		os.Exit(97)
	}
	// generation ordinal: count of earlier starts of this role (a counter file next to the log)
	cnt := fmt.Sprintf("%s.count.%s", base, role)
	n := 0
	if cb, err := os.ReadFile(cnt); err == nil {
		fmt.Sscanf(string(cb), "%d", &n)
	}
	os.WriteFile(cnt, []byte(fmt.Sprint(n+1)), 0o644)
	bs := sc.Roles[role]
	if len(bs) == 0 {
		bs = []behaviour{{Mode: "echo"}}
	}
	bh := bs[len(bs)-1]
	if n < len(bs) {
		bh = bs[n]
	}
	env := map[string]string{}
	for _, kv := range os.Environ() {
		if i := strings.Index(kv, "="); i > 0 {
			env[kv[:i]] = kv[i+1:]
		}
	}
	logj(map[string]interface{}{"ev": "start", "role": role, "ordinal": n, "mode": bh.Mode, "args": os.Args, "env": env})
	api := os.Getenv("AWS_LAMBDA_RUNTIME_API")
	if strings.Contains(bh.Mode, "ignore-term") {
		signal.Ignore(syscall.SIGTERM)
	}
	exit := func() {
		logj(map[string]interface{}{"ev": "exit", "code": bh.ExitCode, "signal": bh.Signal})
		if bh.Signal != 0 {
			syscall.Kill(os.Getpid(), syscall.Signal(bh.Signal))
			time.Sleep(time.Second)
		}
		os.Exit(bh.ExitCode)
	}
	cl := &http.Client{}
	if role != "runtime" {
		runExt(cl, api, role, bh, exit)
		return
	}
	switch bh.Mode {
	case "exit-before-next":
		exit()
	case "init-error":
		req, _ := http.NewRequest("POST", "http://"+api+"/2018-06-01/runtime/init/error", strings.NewReader(`{"errorMessage":"actor init error","errorType":"Runtime.ActorInit"}`))
		req.Header.Set("Lambda-Runtime-Function-Error-Type", "Runtime.ActorInit")
		if resp, err := cl.Do(req); err == nil {
			io.Copy(io.Discard, resp.Body)
			resp.Body.Close()
		}
		exit()
	}
	for i := 0; ; i++ {
		resp, err := cl.Get("http://" + api + "/2018-06-01/runtime/invocation/next")
		if err != nil {
			logj(map[string]interface{}{"ev": "next-error", "err": err.Error()})
			time.Sleep(50 * time.Millisecond)
			continue
		}
		body, _ := io.ReadAll(resp.Body)
		resp.Body.Close()
		id := resp.Header.Get("Lambda-Runtime-Aws-Request-Id")
		logj(map[string]interface{}{"ev": "event", "id": id, "status": resp.StatusCode, "len": len(body), "cc": resp.Header.Get("Lambda-Runtime-Client-Context"), "arn": resp.Header.Get("Lambda-Runtime-Invoked-Function-Arn"), "deadline": resp.Header.Get("Lambda-Runtime-Deadline-Ms")})
		switch bh.Mode {
		case "crash-after-next":
			exit()
		case "stall", "ignore-term-stall":
			select {}
		}
		if bh.DelayMs > 0 {
			time.Sleep(time.Duration(bh.DelayMs) * time.Millisecond)
		}
		out := append([]byte(bh.RespPrefix), body...)
		r2, err := cl.Post("http://"+api+"/2018-06-01/runtime/invocation/"+id+"/response", "application/octet-stream", bytes.NewReader(out))
		st := 0
		if err == nil {
			io.Copy(io.Discard, r2.Body)
			r2.Body.Close()
			st = r2.StatusCode
		}
		logj(map[string]interface{}{"ev": "responded", "id": id, "status": st, "len": len(out)})
		if bh.Mode == "respond-then-exit" {
			exit()
		}
	}
}

func runExt(cl *http.Client, api, name string, bh behaviour, exit func()) {
	evs := bh.Events
	if evs == nil {
		evs = []string{"INVOKE", "SHUTDOWN"}
	}
	rb, _ := json.Marshal(map[string]interface{}{"events": evs})
	req, _ := http.NewRequest("POST", "http://"+api+"/2020-01-01/extension/register", bytes.NewReader(rb))
	req.Header.Set("Lambda-Extension-Name", name)
	resp, err := cl.Do(req)
	if err != nil {
		logj(map[string]interface{}{"ev": "register-error", "err": err.Error()})
		os.Exit(98)
	}
	io.Copy(io.Discard, resp.Body)
	resp.Body.Close()
	id := resp.Header.Get("Lambda-Extension-Identifier")
	logj(map[string]interface{}{"ev": "registered", "status": resp.StatusCode})
	for {
		req, _ := http.NewRequest("GET", "http://"+api+"/2020-01-01/extension/event/next", nil)
		req.Header.Set("Lambda-Extension-Identifier", id)
		resp, err := cl.Do(req)
		if err != nil {
			time.Sleep(50 * time.Millisecond)
			continue
		}
		body, _ := io.ReadAll(resp.Body)
		resp.Body.Close()
		var ev struct {
			EventType string `json:"eventType"`
			RequestID string `json:"requestId"`
		}
		json.Unmarshal(body, &ev)
		logj(map[string]interface{}{"ev": "ext-event", "type": ev.EventType, "id": ev.RequestID, "status": resp.StatusCode})
		if ev.EventType == "SHUTDOWN" {
			if bh.Mode == "ext-ignore-shutdown" {
				select {}
			}
			logj(map[string]interface{}{"ev": "exit", "code": 0})
			os.Exit(0)
		}
		if bh.Mode == "ext-crash-on-event" && ev.EventType == "INVOKE" {
			exit()
		}
	}
}
