package main

import (
	"bytes"
	"encoding/json"
	"errors"
	"fmt"
	"strings"
	"sync"
	"sync/atomic"
	"time"

	"go.amzn.com/verifharness/vh"
)

// C06 — process exit or reported failure yields the right error, then recovery.

func init() { register("C06", genC06) }

type c06Desc struct {
	Who    string     `json:"who"`   // "rt" or "e<k>"
	Fault  string     `json:"fault"` // crash point
	Exit   vh.Exit    `json:"exit"`
	NExt   int        `json:"extensions"`
	Timing string     `json:"invoke_timing"` // early (with init in progress) | late (after the fault happened)
	RtResp string     `json:"rt_response"`   // for faults during an invocation: "before" (runtime responded first) | "withheld"
	Second *c06Second `json:"second,omitempty"`
	// After: a different fault in the generation that follows the recovery ("" | rtcrash | extcrash); with
	// ShutdownReport the healthy extensions of the failed generation report an exit error when they are shut down
	After          string `json:"after,omitempty"`
	ShutdownReport bool   `json:"shutdown_report,omitempty"`
	// RefusedReport: a healthy extension posts an init error report when it is no longer allowed to (403) before
	// the fault happens: a refused call must not be taken for the first fault
	RefusedReport bool           `json:"refused_report,omitempty"`
	HookDelay     map[string]int `json:"hook_delay_ms,omitempty"`
}

type c06Second struct {
	Who   string  `json:"who"`
	Fault string  `json:"fault"`
	Exit  vh.Exit `json:"exit"`
}

var c06RtFaults = []string{"launchFail", "earlyExit", "beforeNext", "afterInitError", "afterNext", "afterResponse", "idle"}
var c06ExtFaults = []string{"launchFail", "earlyExit", "beforeRegister", "afterRegister", "afterFirstEvent", "afterInitErrorReport", "afterExitErrorReportInit", "afterExitErrorReportEvent"}
var c06Exits = []vh.Exit{{Code: 0}, {Code: 3}, {Signal: 9}, {Signal: 11}}

func (d c06Desc) id() string {
	s := fmt.Sprintf("C06/%s/%s/c%ds%d/n%d/%s/%s", d.Who, d.Fault, d.Exit.Code, d.Exit.Signal, d.NExt, d.Timing, d.RtResp)
	if d.Second != nil {
		s += fmt.Sprintf("/2nd-%s-%s-c%ds%d", d.Second.Who, d.Second.Fault, d.Second.Exit.Code, d.Second.Exit.Signal)
	}
	for _, k := range sortedKeysInt(d.HookDelay) {
		s += fmt.Sprintf("/%s=%d", k, d.HookDelay[k])
	}
	if d.After != "" {
		s += fmt.Sprintf("/then-%s-sr%v", d.After, d.ShutdownReport)
	}
	if d.RefusedReport {
		s += "/refused-report"
	}
	return s
}

func sortedKeysInt(m map[string]int) []string {
	mm := map[string]string{}
	for k := range m {
		mm[k] = ""
	}
	return sortedKeys(mm)
}

func duringInvoke(f string) bool {
	return f == "afterNext" || f == "afterFirstEvent" || f == "afterExitErrorReportEvent"
}

func genC06(tier string, seed int64) []Case {
	var cases []Case
	seen := map[string]bool{}
	add := func(d c06Desc) {
		if seen[d.id()] {
			return
		}
		seen[d.id()] = true
		cases = append(cases, Case{ID: d.id(), Class: d.Who[:1] + ":" + d.Fault, Desc: d, Run: func(c *Ctx) { runC06(c, d) }})
	}
	for nExt := 0; nExt <= 2; nExt++ {
		for _, ex := range c06Exits {
			for _, f := range c06RtFaults {
				if f == "launchFail" && (ex.Code != 0 || ex.Signal != 0) {
					continue
				}
				for _, tm := range []string{"early", "late"} {
					if tm == "late" && (duringInvoke(f) || f == "afterResponse" || f == "idle") {
						continue
					}
					add(c06Desc{Who: "rt", Fault: f, Exit: ex, NExt: nExt, Timing: tm, RtResp: "withheld"})
				}
			}
			for k := 0; k < nExt; k++ {
				for _, f := range c06ExtFaults {
					if f == "launchFail" && (ex.Code != 0 || ex.Signal != 0) {
						continue
					}
					for _, tm := range []string{"early", "late"} {
						if tm == "late" && duringInvoke(f) {
							continue
						}
						if duringInvoke(f) {
							add(c06Desc{Who: fmt.Sprintf("e%d", k), Fault: f, Exit: ex, NExt: nExt, Timing: tm, RtResp: "before"})
							add(c06Desc{Who: fmt.Sprintf("e%d", k), Fault: f, Exit: ex, NExt: nExt, Timing: tm, RtResp: "withheld"})
						} else {
							add(c06Desc{Who: fmt.Sprintf("e%d", k), Fault: f, Exit: ex, NExt: nExt, Timing: tm, RtResp: "withheld"})
						}
					}
				}
			}
		}
	}
	// init-phase faults with the events watcher delayed right after it cancelled the flows (the init that wakes
	// up must already find the fault recorded: its runtime-done names it)
	for _, nExt := range []int{0, 1} {
		for _, f := range []string{"earlyExit", "beforeNext"} {
			add(c06Desc{Who: "rt", Fault: f, Exit: vh.Exit{Code: 3}, NExt: nExt, Timing: "early", RtResp: "withheld", HookDelay: map[string]int{"registrations.flowsCancelled": 25}})
		}
	}
	for _, f := range []string{"beforeRegister", "afterRegister"} {
		add(c06Desc{Who: "e0", Fault: f, Exit: vh.Exit{Signal: 9}, NExt: 1, Timing: "early", RtResp: "withheld", HookDelay: map[string]int{"registrations.flowsCancelled": 25}})
	}
	// a fault, recovery, then a DIFFERENT fault in the next generation: the second failure must name its own
	// fault, whatever was reported while the first generation was being torn down
	for _, nExt := range []int{1, 2} {
		for _, first := range []c06Desc{
			{Who: "rt", Fault: "afterNext", Exit: vh.Exit{Code: 3}}, {Who: "rt", Fault: "idle", Exit: vh.Exit{Signal: 9}},
			{Who: "e0", Fault: "afterFirstEvent", Exit: vh.Exit{Code: 3}}, {Who: "rt", Fault: "beforeNext", Exit: vh.Exit{Code: 0}},
			{Who: "e0", Fault: "afterExitErrorReportEvent", Exit: vh.Exit{Code: 3}},
		} {
			for _, after := range []string{"rtcrash", "extcrash"} {
				for _, sr := range []bool{false, true} {
					d := first
					d.NExt, d.Timing, d.RtResp, d.After, d.ShutdownReport = nExt, "early", "withheld", after, sr
					add(d)
				}
			}
		}
	}
	// a refused error report (403) precedes the real fault
	for _, nExt := range []int{1, 2} {
		for _, ex := range c06Exits {
			add(c06Desc{Who: "rt", Fault: "idle", Exit: ex, NExt: nExt, Timing: "early", RtResp: "withheld", RefusedReport: true})
			add(c06Desc{Who: "rt", Fault: "idle", Exit: ex, NExt: nExt, Timing: "early", RtResp: "withheld", RefusedReport: true, After: "rtcrash"})
			// ... and during initialisation: the extension is already parked in next when it reports, the runtime dies before its first next
			add(c06Desc{Who: "rt", Fault: "beforeNext", Exit: ex, NExt: nExt, Timing: "early", RtResp: "withheld", RefusedReport: true})
			add(c06Desc{Who: "rt", Fault: "beforeNext", Exit: ex, NExt: nExt, Timing: "late", RtResp: "withheld", RefusedReport: true})
		}
	}
	if tier == "thorough" {
		r := rng(seed, "C06")
		// ordered double faults and hook delays
		for i := 0; i < 6000; i++ {
			nExt := 1 + r.Intn(2)
			d := c06Desc{NExt: nExt, Exit: c06Exits[r.Intn(4)], Timing: []string{"early", "late"}[r.Intn(2)], RtResp: []string{"before", "withheld"}[r.Intn(2)]}
			if r.Intn(2) == 0 {
				d.Who, d.Fault = "rt", c06RtFaults[r.Intn(len(c06RtFaults))]
			} else {
				d.Who, d.Fault = fmt.Sprintf("e%d", r.Intn(nExt)), c06ExtFaults[r.Intn(len(c06ExtFaults))]
			}
			if d.Fault == "launchFail" {
				d.Exit = vh.Exit{}
			}
			if d.Timing == "late" && (duringInvoke(d.Fault) || d.Fault == "afterResponse" || d.Fault == "idle") {
				d.Timing = "early"
			}
			if !duringInvoke(d.Fault) {
				d.RtResp = "withheld"
			}
			if r.Intn(2) == 0 {
				// second fault by another party, later in its script
				s := &c06Second{Exit: c06Exits[r.Intn(4)]}
				if d.Who == "rt" {
					s.Who, s.Fault = fmt.Sprintf("e%d", r.Intn(nExt)), []string{"afterFirstEvent", "afterRegister"}[r.Intn(2)]
				} else {
					s.Who, s.Fault = "rt", []string{"afterNext", "afterResponse"}[r.Intn(2)]
				}
				// an "idle" fault needs a healthy first invocation; a second party failing
				// at register / first event would make that invocation fail legitimately
				if d.Fault != "idle" {
					d.Second = s
				}
			}
			if r.Intn(3) == 0 {
				d.HookDelay = map[string]int{[]string{"invoke.releaseFailed", "watchEvents.exitRecorded", "fastInvoke.failureSeen", "handleReset.flowsCancelled"}[r.Intn(4)]: 1 + r.Intn(15)}
			}
			add(d)
		}
	}
	return cases
}

func exitName(e vh.Exit) string {
	if e.Signal != 0 {
		return fmt.Sprintf("sig%d", e.Signal)
	}
	return fmt.Sprintf("code%d", e.Code)
}

func runC06(c *Ctx, d c06Desc) {
	exts := []string{}
	for i := 0; i < d.NExt; i++ {
		exts = append(exts, fmt.Sprintf("ext%d", i))
	}
	w, err := NewWorld(vh.Config{TimeoutMs: 6000, Extensions: exts})
	if err != nil {
		c.Inconclusive("harness: " + err.Error())
		return
	}
	defer w.Close()
	hk := w.Hk
	for k, v := range d.HookDelay {
		hk.Delay(k, time.Duration(v)*time.Millisecond)
	}

	initErrBody := []byte(`{"errorMessage":"boom at init","errorType":"Runtime.BadInit","tag":"` + d.id() + `"}`)
	respBody := func(ev []byte) []byte { return append([]byte("RESP:"), ev...) }
	var mu sync.Mutex
	faultDone := make(chan struct{}) // closed when the faulty process of generation 1 has exited and the emulator consumed the event
	var faultOnce sync.Once
	firstReturned := make(chan struct{})
	rtResponded := make(chan struct{})
	var rtRespOnce sync.Once
	var afterPhase int32
	refusedDone := make(chan struct{})
	var refusedOnce sync.Once
	faultFor := func(who string) (string, vh.Exit) {
		if d.Who == who {
			return d.Fault, d.Exit
		}
		if d.Second != nil && d.Second.Who == who {
			return d.Second.Fault, d.Second.Exit
		}
		return "", vh.Exit{}
	}
	_ = mu

	w.RtPlan = func(gen int, p *vh.Proc) vh.ExecPlan {
		if gen != 1 {
			return vh.ExecPlan{Behave: w.RtLoop(RtOpts{Handle: func(p *vh.Proc, pt *vh.Party, n int, ev *vh.Resp) *vh.Exit {
				if d.After == "rtcrash" && atomic.LoadInt32(&afterPhase) == 1 {
					return &vh.Exit{Signal: 11}
				}
				if d.After == "extcrash" && atomic.LoadInt32(&afterPhase) == 1 {
					// the extension's crash is the fault of this invocation: the runtime never gets to answer
					<-p.Ctx.Done()
					return nil
				}
				pt.Respond(ev.ReqID(), respBody(ev.Body), nil)
				return nil
			}})}
		}
		f, ex := faultFor("rt")
		if f == "launchFail" {
			return vh.ExecPlan{Fail: errors.New("fork/exec " + p.Path + ": exec format error")}
		}
		if f == "earlyExit" {
			// the process is gone (and its exit event offered) before Exec returns
			return vh.ExecPlan{EarlyExit: &ex}
		}
		o := RtOpts{}
		o.BeforeFirstNext = func(p *vh.Proc, pt *vh.Party) *vh.Exit {
			switch f {
			case "beforeNext":
				if d.RefusedReport {
					// die only after the (refused) report of the healthy extension has been made
					select {
					case <-refusedDone:
					case <-p.Ctx.Done():
						return nil
					case <-time.After(5 * time.Second):
					}
				}
				return &ex
			case "afterInitError":
				pt.InitError(initErrBody, map[string]string{"Lambda-Runtime-Function-Error-Type": "Runtime.BadInit"})
				return &ex
			}
			return nil
		}
		o.Handle = func(p *vh.Proc, pt *vh.Party, n int, ev *vh.Resp) *vh.Exit {
			if f == "afterNext" && n == 0 {
				return &ex
			}
			if d.RtResp == "withheld" && duringInvoke(d.Fault) && d.Who != "rt" && n == 0 {
				// wait until the other party's fault has happened, then try to respond
				select {
				case <-faultDone:
				case <-p.Ctx.Done():
					return nil
				}
			}
			r := pt.Respond(ev.ReqID(), respBody(ev.Body), nil)
			if r.Status == 202 {
				rtRespOnce.Do(func() { close(rtResponded) })
			}
			if f == "afterResponse" && n == 0 {
				return &ex
			}
			return nil
		}
		o.AfterHandle = func(p *vh.Proc, pt *vh.Party, n int) *vh.Exit {
			return nil
		}
		if f == "idle" {
			// exit once parked in the second next: modelled by a watchdog goroutine
			o.AfterHandle = func(p *vh.Proc, pt *vh.Party, n int) *vh.Exit {
				if n == 0 {
					go func() {
						// wait until the runtime is parked again and the first invocation returned
						select {
						case <-firstReturned:
						case <-time.After(8 * time.Second):
						}
						dl := time.Now().Add(5 * time.Second)
						for time.Now().Before(dl) {
							if w.E.RuntimeState() == "Ready" {
								break
							}
							time.Sleep(200 * time.Microsecond)
						}
						time.Sleep(2 * time.Millisecond)
						p.RequestExit(ex)
					}()
				}
				return nil
			}
		}
		return vh.ExecPlan{Behave: w.RtLoop(o)}
	}
	w.ExtPlan = func(base string, gen int, p *vh.Proc) vh.ExecPlan {
		who := "e" + strings.TrimPrefix(base, "ext")
		healthy := ExtOpts{Events: []string{"INVOKE", "SHUTDOWN"}}
		if gen != 1 {
			o := healthy
			if d.After == "extcrash" && who == "e0" {
				o.OnEvent = func(p *vh.Proc, pt *vh.Party, n int, ev *vh.Resp) *vh.Exit {
					if atomic.LoadInt32(&afterPhase) == 1 && parseExtEvent(ev.Body).EventType == "INVOKE" {
						return &vh.Exit{Code: 4}
					}
					return nil
				}
			}
			return vh.ExecPlan{Behave: w.ExtLoop(o)}
		}
		f, ex := faultFor(who)
		switch f {
		case "":
			o := healthy
			if d.RefusedReport && d.Fault == "beforeNext" {
				o.AfterRegister = func(p *vh.Proc, pt *vh.Party, reg *vh.Resp) *vh.Exit {
					id, name := pt.ID(), base
					go func() {
						dl := time.Now().Add(4 * time.Second)
						for time.Now().Before(dl) && w.E.ExtState(name) != "Ready" {
							time.Sleep(200 * time.Microsecond)
						}
						p2 := vh.NewParty(pt.Src+"#2", w.E.Addr, w.E.Log, p.Ctx)
						r := p2.ExtInitError(id, "Extension.TooLateToSay")
						if r.Status != 0 { // 0: the sender was killed before it got an answer
							c.Check(r.Status == 403, "late_init_error_refused", fmt.Sprintf("C06/late-init-error/%d", r.Status), "an init error report of an extension that is already parked in next was not refused", nil)
						}
						refusedOnce.Do(func() { close(refusedDone) })
					}()
					return nil
				}
			} else if d.RefusedReport {
				o.OnEvent = func(p *vh.Proc, pt *vh.Party, n int, ev *vh.Resp) *vh.Exit {
					if n == 0 && parseExtEvent(ev.Body).EventType == "INVOKE" {
						r := pt.ExtInitError(pt.ID(), "Extension.TooLateToSay")
						if r.Status != 0 {
							c.Check(r.Status == 403, "late_init_error_refused", fmt.Sprintf("C06/late-init-error/%d", r.Status), "an init error report of an extension that is already running was not refused", nil)
						}
					}
					return nil
				}
			} else if d.ShutdownReport {
				// a healthy extension of the failing generation: when shut down it reports an exit error and leaves
				o.OnEvent = func(p *vh.Proc, pt *vh.Party, n int, ev *vh.Resp) *vh.Exit {
					if parseExtEvent(ev.Body).EventType == "SHUTDOWN" {
						pt.ExtExitError(pt.ID(), "Extension.TeardownTrouble")
						return &vh.Exit{Code: 1}
					}
					return nil
				}
			}
			return vh.ExecPlan{Behave: w.ExtLoop(o)}
		case "launchFail":
			return vh.ExecPlan{Fail: errors.New("fork/exec " + p.Path + ": permission denied")}
		case "earlyExit":
			return vh.ExecPlan{EarlyExit: &ex}
		}
		o := healthy
		o.BeforeRegister = func(p *vh.Proc, pt *vh.Party) *vh.Exit {
			if f == "beforeRegister" {
				return &ex
			}
			return nil
		}
		o.AfterRegister = func(p *vh.Proc, pt *vh.Party, reg *vh.Resp) *vh.Exit {
			switch f {
			case "afterRegister":
				return &ex
			case "afterInitErrorReport":
				pt.ExtInitError(pt.ID(), "Extension.SomeInitFailure")
				return &ex
			case "afterExitErrorReportInit":
				pt.ExtExitError(pt.ID(), "Extension.SomeExitFailure")
				return &ex
			}
			return nil
		}
		o.OnEvent = func(p *vh.Proc, pt *vh.Party, n int, ev *vh.Resp) *vh.Exit {
			if n != 0 || parseExtEvent(ev.Body).EventType != "INVOKE" {
				return nil
			}
			if d.RtResp == "before" && who == d.Who {
				// let the runtime respond (and return to next) first
				select {
				case <-rtResponded:
				case <-p.Ctx.Done():
					return nil
				case <-time.After(3 * time.Second):
				}
				dl := time.Now().Add(2 * time.Second)
				for time.Now().Before(dl) && w.E.RuntimeState() != "Ready" {
					time.Sleep(100 * time.Microsecond)
				}
			}
			switch f {
			case "afterFirstEvent":
				return &ex
			case "afterExitErrorReportEvent":
				pt.ExtExitError(pt.ID(), "Extension.SomeExitFailure")
				return &ex
			}
			return nil
		}
		return vh.ExecPlan{Behave: w.ExtLoop(o)}
	}

	// watcher: close faultDone when the faulty generation-1 process is gone and its exit event delivered
	go func() {
		dl := time.Now().Add(20 * time.Second)
		for time.Now().Before(dl) {
			for _, e := range w.E.Log.Snapshot() {
				if e.Src == "sup" && (e.Kind == "exitdelivered" || (e.Kind == "exec" && e.Extra["fail"] != "")) {
					time.Sleep(2 * time.Millisecond) // let the watcher goroutine act on it
					faultOnce.Do(func() { close(faultDone) })
					return
				}
			}
			time.Sleep(300 * time.Microsecond)
		}
	}()

	w.E.Init()
	if d.Timing == "late" {
		select {
		case <-faultDone:
		case <-time.After(8 * time.Second):
			c.Inconclusive("fault did not happen during init")
			return
		}
		time.Sleep(5 * time.Millisecond)
	}

	type outcome struct {
		inv  *vh.Invocation
		id   string
		name string
	}
	invoke := func(tag string) *vh.Invocation {
		inv := w.E.InvokeAsync([]byte("event-"+tag), vh.InvokeOpts{})
		if !inv.Wait(6*time.Second + 2*time.Second + 6*time.Second) {
			c.Check(false, "never_hangs", "C06/hang/"+d.Who[:1]+":"+d.Fault, "invocation was left hanging after a process fault", tag)
			return nil
		}
		c.Clause("never_hangs")
		return inv
	}
	reqIDOf := func(inv *vh.Invocation) string {
		// the request id of an invocation = the SetCurrentRequestID event between its call and ret
		id := ""
		for _, e := range w.E.Log.Snapshot() {
			if e.Src == "events" && e.Op == "SetCurrentRequestID" && e.Seq > inv.CallSeq && (inv.RetSeq == 0 || e.Seq < inv.RetSeq) {
				id = e.ID
			}
		}
		return id
	}

	var faulty *vh.Invocation
	if d.Fault == "idle" {
		first := invoke("first")
		if first == nil {
			return
		}
		close(firstReturned)
		if !c.Check(first.Err == nil && bytes.Equal(first.W.Body(), respBody([]byte("event-first"))), "healthy_before_fault", "C06/healthy-first-failed", "the invocation before the idle fault failed", vh.ErrName(first.Err)) {
			c.SetSample(sampleLog(w, 120))
			return
		}
		select {
		case <-faultDone:
		case <-time.After(8 * time.Second):
			c.Inconclusive("idle fault did not happen")
			return
		}
		time.Sleep(3 * time.Millisecond)
	}
	faulty = invoke("faulty")
	if faulty == nil {
		c.SetSample(sampleLog(w, 150))
		return
	}
	status := vh.ErrName(faulty.Err)
	body := faulty.W.Body()
	fid := reqIDOf(faulty)
	// let the parties' in-flight response calls complete on the client side before reading their histories
	quiesce(w, 1500*time.Millisecond)
	evs := w.E.Log.Snapshot()

	cls := d.Who[:1] + ":" + d.Fault
	// 1. failure status
	c.Check(status == "invokefail" || status == "initfail", "failure_status", "C06/status/"+cls+"/"+status, fmt.Sprintf("fault %s by %s: invocation ended %q instead of a failure status", d.Fault, d.Who, status), nil)

	if d.Who == "rt" && d.Fault == "launchFail" && status == "ok" {
		// the launch was silently retried and the invocation served by the relaunched runtime: none of the
		// clauses about the failure path (body, reaping, fresh processes afterwards) has a subject
		c.SetHooks(hk.Arrived())
		c.SetTrace("rt-launchfail-retried"+status, true)
		c.SetSample(sampleLog(w, 160))
		return
	}

	// 2. body
	firstFault := map[string]string{
		"earlyExit": "Runtime.ExitError", "beforeNext": "Runtime.ExitError", "afterNext": "Runtime.ExitError", "afterResponse": "Runtime.ExitError", "idle": "Runtime.ExitError", "afterInitError": "Runtime.ExitError",
		"launchFail": "Extension.LaunchError", "beforeRegister": "Extension.Crash", "afterRegister": "Extension.Crash", "afterFirstEvent": "Extension.Crash",
		"afterInitErrorReport": "Extension.InitError", "afterExitErrorReportInit": "Extension.ExitError", "afterExitErrorReportEvent": "Extension.ExitError",
	}[d.Fault]
	// did the runtime deliver a response for the faulty invocation?
	// "delivered" = the runtime posted a response for this id and exactly those bytes reached the
	// caller (the acknowledgement to the runtime may be lost when the environment is torn down)
	delivered := []byte(nil)
	for _, pt := range w.AllParties() {
		for _, h := range pt.History() {
			if h.Op == "response" && h.ID == fid && fid != "" && h.Resp != nil && (h.Resp.Status == 202 || (h.Resp.Status == 0 && bytes.Equal(h.ReqBody, body))) {
				delivered = h.ReqBody
			}
		}
	}
	completedInit := false
	for _, e := range evs {
		if e.Src == "events" && e.Op == "InitRuntimeDone" && e.Extra["status"] == "success" && e.Extra["phase"] == "init" {
			// runtime reached next; init completed iff an InitReport followed without any fault before: approximate by scenario class
			completedInit = true
		}
	}
	switch {
	case delivered != nil:
		c.Check(bytes.Equal(body, delivered), "body_is_delivered_response", "C06/body/"+cls+"/not-the-response", "a response had been delivered for the failed invocation but the caller got something else", trunc(body))
	case d.Fault == "afterInitError" && d.Second == nil:
		c.Check(bytes.Equal(body, initErrBody), "body_is_init_error", "C06/body/"+cls+"/not-init-error", "runtime reported /init/error but the caller did not get that payload", trunc(body))
	case (duringInvoke(d.Fault) || d.Fault == "idle") && d.Second == nil:
		var fe funcErr
		ok := json.Unmarshal(body, &fe) == nil && fe.ErrorType == firstFault && strings.Contains(fe.ErrorMessage, "RequestId: "+fid+" Error:") && fid != ""
		c.Check(ok, "body_names_first_fault", "C06/body/"+cls+"/wrong-json", fmt.Sprintf("expected JSON error naming %s and request id %s", firstFault, fid), trunc(body))
	case d.Second == nil:
		// fault during initialisation not reported by the runtime: failure status only
		c.Check(len(body) == 0, "body_empty_for_init_fault", "C06/body/"+cls+"/not-empty", "fault during initialisation (not reported by the runtime) yielded a body", trunc(body))
	default:
		// double faults: body must be one of the platform shapes
		var fe funcErr
		ok := len(body) == 0 || bytes.Equal(body, initErrBody) || (json.Unmarshal(body, &fe) == nil && (strings.HasPrefix(fe.ErrorType, "Runtime.") || strings.HasPrefix(fe.ErrorType, "Extension.") || strings.HasPrefix(fe.ErrorType, "Sandbox.")))
		c.Check(ok, "body_platform_shape", "C06/body/double/unknown-shape", "double fault yielded a body that is neither empty, the init error payload nor a platform error", trunc(body))
	}
	_ = completedInit

	// 3. every process started before the answer was reaped before the answer
	for _, p := range w.E.Sup.Procs() {
		if p.ExecSeq < faulty.RetSeq {
			exited := !p.Alive() && func() bool {
				for _, e := range evs {
					if e.Src == "sup" && e.Kind == "exit" && e.Op == p.Name {
						return e.Seq < faulty.RetSeq
					}
				}
				return false
			}()
			c.Check(exited, "reaped_before_answer", "C06/not-reaped/"+p.Role, fmt.Sprintf("process %s was still running when the failed invocation was answered", p.Name), nil)
		}
	}

	// 4. recovery on new processes
	rec := invoke("recovery")
	if rec == nil {
		c.SetSample(sampleLog(w, 150))
		return
	}
	okRec := rec.Err == nil && bytes.Equal(rec.W.Body(), respBody([]byte("event-recovery")))
	c.Check(okRec, "recovers", "C06/no-recovery/"+cls, "the invocation following the failed one did not succeed", []string{vh.ErrName(rec.Err), trunc(rec.W.Body())})
	if okRec {
		// served by processes started after the failed answer
		for _, pt := range w.AllParties() {
			for _, h := range pt.History() {
				recID := reqIDOf(rec)
				servedRec := (h.Op == "next" && h.Resp != nil && h.Resp.ReqID() == recID) || (h.Op == "extnext" && h.Resp != nil && parseExtEvent(h.Resp.Body).RequestID == recID)
				if servedRec && recID != "" && h.Resp.Status == 200 {
					name := strings.SplitN(pt.Src, ":", 2)[1]
					for _, p := range w.E.Sup.Procs() {
						if p.Name == name {
							c.Check(p.ExecSeq > faulty.RetSeq, "fresh_processes", "C06/stale-process", "recovery invocation was served by a process of the failed environment", name)
						}
					}
				}
			}
		}
	}
	// 5. a different fault in the recovered generation is reported as what it is
	if d.After != "" && okRec {
		atomic.StoreInt32(&afterPhase, 1)
		aft := invoke("after")
		atomic.StoreInt32(&afterPhase, 2)
		if aft == nil {
			c.SetSample(sampleLog(w, 200))
			return
		}
		aid := reqIDOf(aft)
		wantType := map[string]string{"rtcrash": "Runtime.ExitError", "extcrash": "Extension.Crash"}[d.After]
		st := vh.ErrName(aft.Err)
		c.Check(st == "invokefail", "failure_status", "C06/status/after-"+d.After+"/"+st, fmt.Sprintf("second fault (%s) in the recovered generation: invocation ended %q", d.After, st), nil)
		var fe funcErr
		ok := json.Unmarshal(aft.W.Body(), &fe) == nil && fe.ErrorType == wantType && strings.Contains(fe.ErrorMessage, "RequestId: "+aid+" Error:") && aid != ""
		c.Check(ok, "later_fault_named_as_is", "C06/body/after-"+d.After+"/"+fe.ErrorType, fmt.Sprintf("the fault of the recovered generation (%s) must be named %s with request id %s (first fault was %s by %s, exit error reported during teardown: %v)", d.After, wantType, aid, d.Fault, d.Who, d.ShutdownReport), trunc(aft.W.Body()))
		fin := invoke("final")
		if fin == nil {
			c.SetSample(sampleLog(w, 200))
			return
		}
		c.Check(fin.Err == nil && bytes.Equal(fin.W.Body(), respBody([]byte("event-final"))), "recovers", "C06/no-recovery/after-"+d.After, "the invocation following the second failure did not succeed", vh.ErrName(fin.Err))
		evs = w.E.Log.Snapshot()
	}
	lifecycleOracle(c, w)
	if staleRequestLeak(w) {
		c.Taint("stale-inflight-request")
	}
	c.SetHooks(hk.Arrived())
	c.SetTrace(d.After+fmt.Sprint(d.ShutdownReport)+NormTrace(evs, func(e vh.Event) bool {
		return e.Src == "sup" || e.Src == "events" || strings.HasPrefix(e.Src, "caller")
	})+status+fmt.Sprint(len(body)), true)
	if c.WantSample || c.Violated() {
		c.SetSample(sampleLog(w, 160))
	}
}
