package main

import (
	"go.amzn.com/verifharness/sc"
)

// aliases for the shared scenario helpers (package sc)
type (
	World    = sc.World
	RtOpts   = sc.RtOpts
	ExtOpts  = sc.ExtOpts
	HookCtl  = sc.HookCtl
	extEvent = sc.ExtEvent
)

var (
	NewWorld         = sc.NewWorld
	NewHookCtl       = sc.NewHookCtl
	EchoBody         = sc.EchoBody
	Stall            = sc.Stall
	NormTrace        = sc.NormTrace
	parseExtEvent    = sc.ParseExtEvent
	rng              = sc.Rng
	randBytes        = sc.RandBytes
	sortedInts       = sc.SortedInts
	sampleLog        = sc.SampleLog
	procsOfGen       = sc.ProcsOfGen
	maxGen           = sc.MaxGen
	quiesce          = sc.Quiesce
	staleRequestLeak = sc.StaleRequestLeak
)
