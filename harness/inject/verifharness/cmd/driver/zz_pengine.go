package main

import (
	"bufio"
	"bytes"
	"encoding/base64"
	"encoding/json"
	"fmt"
	"io"
	"net"
	"net/http"
	"os"
	"os/exec"
	"path/filepath"
	"strconv"
	"strings"
	"sync"
	"syscall"
	"time"
)

// Engine P: the real aws-lambda-rie binary (race build, hooks compiled in)
// with the real local supervisor and real child processes (the scripted actor
// executable), driven over real HTTP. Adds a few cases to C01, C05, C06, C10
// and C16 for the clauses that live in main.go / http.go / the OS.

func init() {
	for _, p := range []string{"C01", "C05", "C06", "C10", "C16"} {
		p := p
		old := registry[p]
		registry[p] = func(tier string, seed int64) []Case {
			cs := old(tier, seed)
			if os.Getenv("VERIF_BIN_RIE") == "" || os.Getenv("VERIF_BIN_ACTOR") == "" {
				return cs
			}
			return append(cs, pCases(p, tier)...)
		}
	}
}

type pDesc struct {
	Prop string `json:"-"`
	Kind string `json:"kind"`
	Arg  string `json:"arg,omitempty"`
	Ext  string `json:"extension,omitempty"`
}

func pCases(prop, tier string) []Case {
	var cases []Case
	add := func(d pDesc) {
		d.Prop = prop
		cases = append(cases, Case{ID: fmt.Sprintf("%s/binary/%s/%s/%s", prop, d.Kind, d.Arg, d.Ext), Class: "binary:" + d.Kind, Desc: d, Timeout: 120 * time.Second, Run: func(c *Ctx) { runP(c, d) }})
	}
	switch prop {
	case "C01":
		add(pDesc{Kind: "roundtrip"})
		add(pDesc{Kind: "roundtrip", Ext: "ext"})
		add(pDesc{Kind: "slow-reader"})
	case "C10":
		add(pDesc{Kind: "concurrent", Arg: "2"})
		add(pDesc{Kind: "concurrent", Arg: "3"})
	case "C06":
		for _, a := range []string{"crash-after-next", "crash-signal", "exit-before-next", "init-error", "respond-then-exit"} {
			add(pDesc{Kind: "failure", Arg: a})
		}
		add(pDesc{Kind: "failure", Arg: "ext-crash-on-event", Ext: "ext-crash-on-event"})
	case "C05":
		add(pDesc{Kind: "timeout", Arg: "stall"})
		add(pDesc{Kind: "timeout", Arg: "ignore-term-stall", Ext: "ext"})
		add(pDesc{Kind: "timeout", Arg: "stall", Ext: "ext-ignore-shutdown"})
	case "C16":
		add(pDesc{Kind: "environ", Ext: "ext"})
	}
	return cases
}

type rie struct {
	cmd     *exec.Cmd
	api     string
	front   string
	dir     string
	logBase string
	stderr  string
	exited  chan struct{}
	waitErr error
}

func freePort() int {
	l, err := net.Listen("tcp", "127.0.0.1:0")
	if err != nil {
		return 0
	}
	defer l.Close()
	return l.Addr().(*net.TCPAddr).Port
}

func startRIE(script map[string]interface{}, env map[string]string, ext string) (*rie, error) {
	dir, err := os.MkdirTemp(os.Getenv("VERIF_TMP"), "rie-")
	if err != nil {
		return nil, err
	}
	r := &rie{dir: dir, api: fmt.Sprintf("127.0.0.1:%d", freePort()), front: fmt.Sprintf("127.0.0.1:%d", freePort()), logBase: filepath.Join(dir, "actor.log"), stderr: filepath.Join(dir, "rie.stderr"), exited: make(chan struct{})}
	sb, _ := json.Marshal(script)
	sp := filepath.Join(dir, "script.json")
	os.WriteFile(sp, sb, 0o644)
	actor := os.Getenv("VERIF_BIN_ACTOR")
	rieBin := os.Getenv("VERIF_BIN_RIE")
	args := []string{rieBin, "--log-level", "error", "--runtime-api-address", r.api, "--runtime-interface-emulator-address", r.front, actor, "my.handler"}
	if ext != "" {
		// private mount namespace with a tmpfs on /opt holding the extension executable
		sh := fmt.Sprintf("mount -t tmpfs none /opt && mkdir -p /opt/extensions && cp %s /opt/extensions/myext && chmod 755 /opt/extensions/myext && exec \"$@\"", actor)
		args = append([]string{"unshare", "-m", "sh", "-c", sh, "sh"}, args...)
	}
	r.cmd = exec.Command(args[0], args[1:]...)
	r.cmd.Env = []string{"PATH=" + os.Getenv("PATH"), "HOME=/tmp", "VERIF_ACTOR_SCRIPT=" + sp, "VERIF_ACTOR_LOG=" + r.logBase, "GORACE=halt_on_error=0 exitcode=0 log_path=" + filepath.Join(dir, "race")}
	for k, v := range env {
		r.cmd.Env = append(r.cmd.Env, k+"="+v)
	}
	f, _ := os.Create(r.stderr)
	r.cmd.Stdout, r.cmd.Stderr = f, f
	r.cmd.SysProcAttr = &syscall.SysProcAttr{Setpgid: true}
	if err := r.cmd.Start(); err != nil {
		return nil, err
	}
	go func() { r.waitErr = r.cmd.Wait(); close(r.exited) }()
	// wait for the front end to listen
	dl := time.Now().Add(10 * time.Second)
	for time.Now().Before(dl) {
		if c, err := net.DialTimeout("tcp", r.front, 200*time.Millisecond); err == nil {
			c.Close()
			return r, nil
		}
		select {
		case <-r.exited:
			return r, fmt.Errorf("emulator exited at start-up")
		default:
		}
		time.Sleep(5 * time.Millisecond)
	}
	return r, fmt.Errorf("front end did not come up")
}

func (r *rie) alive() bool {
	select {
	case <-r.exited:
		return false
	default:
		return true
	}
}

func (r *rie) stop() {
	if r.cmd != nil && r.cmd.Process != nil {
		syscall.Kill(-r.cmd.Process.Pid, syscall.SIGKILL)
		select {
		case <-r.exited:
		case <-time.After(3 * time.Second):
		}
	}
	// children placed in their own process groups by the supervisor
	for _, rec := range r.actorLog() {
		if pid, ok := rec["pid"].(float64); ok {
			syscall.Kill(int(pid), syscall.SIGKILL)
		}
	}
	os.RemoveAll(r.dir)
}

func (r *rie) actorLog() []map[string]interface{} {
	var res []map[string]interface{}
	files, _ := filepath.Glob(r.logBase + ".[0-9]*")
	for _, f := range files {
		fh, err := os.Open(f)
		if err != nil {
			continue
		}
		sc := bufio.NewScanner(fh)
		sc.Buffer(make([]byte, 1<<20), 1<<24)
		for sc.Scan() {
			var m map[string]interface{}
			if json.Unmarshal(sc.Bytes(), &m) == nil {
				res = append(res, m)
			}
		}
		fh.Close()
	}
	return res
}

func (r *rie) stderrTail() string {
	b, _ := os.ReadFile(r.stderr)
	if len(b) > 3000 {
		b = b[len(b)-3000:]
	}
	return string(b)
}

type httpResp struct {
	Code int
	Body []byte
	Err  error
	Took time.Duration
}

func (r *rie) invoke(body []byte, hdr map[string]string) httpResp {
	var rd io.Reader = bytes.NewReader(body)
	if hdr["__chunked"] != "" {
		rd = struct{ io.Reader }{rd} // length not announced: sent with Transfer-Encoding: chunked
	}
	req, _ := http.NewRequest("POST", "http://"+r.front+"/2015-03-31/functions/function/invocations", rd)
	for k, v := range hdr {
		if strings.HasPrefix(k, "__") {
			continue
		}
		req.Header.Set(k, v)
	}
	t0 := time.Now()
	cl := &http.Client{Timeout: 60 * time.Second, Transport: &http.Transport{DisableKeepAlives: true}}
	resp, err := cl.Do(req)
	if err != nil {
		return httpResp{Err: err, Took: time.Since(t0)}
	}
	defer resp.Body.Close()
	b, err := io.ReadAll(resp.Body)
	return httpResp{Code: resp.StatusCode, Body: b, Err: err, Took: time.Since(t0)}
}

func pidState(pid int) string {
	b, err := os.ReadFile(fmt.Sprintf("/proc/%d/stat", pid))
	if err != nil {
		return "gone"
	}
	s := string(b)
	if i := strings.LastIndex(s, ")"); i >= 0 && i+2 < len(s) {
		return string(s[i+2])
	}
	return "?"
}

func runP(c *Ctx, d pDesc) {
	P := d.Prop
	roles := map[string]interface{}{}
	env := map[string]string{"AWS_LAMBDA_FUNCTION_TIMEOUT": "20", "AWS_LAMBDA_FUNCTION_NAME": "binfn"}
	rtFirst := map[string]interface{}{"mode": "echo", "resp_prefix": "BIN:"}
	switch d.Kind {
	case "failure":
		switch d.Arg {
		case "crash-after-next":
			rtFirst = map[string]interface{}{"mode": "crash-after-next", "exit_code": 3}
		case "crash-signal":
			rtFirst = map[string]interface{}{"mode": "crash-after-next", "signal": 9} // a Go process cannot die of a self-sent SIGSEGV (its runtime turns it into exit 2); SIGKILL is unambiguous
		case "exit-before-next":
			rtFirst = map[string]interface{}{"mode": "exit-before-next", "exit_code": 4}
		case "init-error":
			rtFirst = map[string]interface{}{"mode": "init-error", "exit_code": 1}
		case "respond-then-exit":
			rtFirst = map[string]interface{}{"mode": "respond-then-exit", "exit_code": 5, "resp_prefix": "BIN:"}
		case "ext-crash-on-event":
			rtFirst = map[string]interface{}{"mode": "echo", "resp_prefix": "BIN:", "delay_ms": 150}
		}
	case "timeout":
		env["AWS_LAMBDA_FUNCTION_TIMEOUT"] = "1"
		rtFirst = map[string]interface{}{"mode": d.Arg}
	case "concurrent":
		rtFirst = map[string]interface{}{"mode": "echo", "resp_prefix": "BIN:", "delay_ms": 300}
	case "environ":
		env["WEIRD"] = "a=b=c"
		env["EMPTYVAL"] = ""
		env["AWS_ACCESS_KEY_ID"] = "AKIA-BIN"
	}
	roles["runtime"] = []interface{}{rtFirst, map[string]interface{}{"mode": "echo", "resp_prefix": "BIN:"}}
	if d.Ext != "" {
		mode := "ext"
		if d.Ext != "ext" {
			mode = d.Ext
		}
		roles["myext"] = []interface{}{map[string]interface{}{"mode": mode, "exit_code": 6}, map[string]interface{}{"mode": "ext"}}
	}
	r, err := startRIE(map[string]interface{}{"roles": roles}, env, d.Ext)
	if r != nil {
		defer r.stop()
	}
	if err != nil {
		tail := ""
		if r != nil {
			tail = r.stderrTail()
		}
		c.Inconclusive("harness: " + err.Error() + " " + tail)
		return
	}
	aliveCheck := func(where string) bool {
		return c.Check(r.alive(), "binary_alive", P+"/binary/emulator-died/"+d.Kind, "the aws-lambda-rie process died ("+where+")", r.stderrTail())
	}
	starts := func(role string) []map[string]interface{} {
		var res []map[string]interface{}
		for _, m := range r.actorLog() {
			if m["ev"] == "start" && m["role"] == role {
				res = append(res, m)
			}
		}
		return res
	}
	expectOK := func(tag string, body []byte) {
		h := r.invoke(body, nil)
		c.Check(h.Err == nil && h.Code == 200 && bytes.Equal(h.Body, append([]byte("BIN:"), body...)), "binary_healthy_invocation", P+"/binary/"+tag, fmt.Sprintf("%s: status %d err %v body %s", tag, h.Code, h.Err, trunc(h.Body)), nil)
	}

	switch d.Kind {
	case "slow-reader":
		// caller 1 reads its (large) response slowly; meanwhile caller 2 is served. Each must receive its own bytes.
		rnd := rng(c.Seed, "binary-slow-reader")
		body1, body2 := randBytes(rnd, maxPayload-4), randBytes(rnd, maxPayload-100000) // larger than any socket buffer: part of response 1 is still in user space
		dl := net.Dialer{Timeout: 2 * time.Second, Control: func(network, address string, rc syscall.RawConn) error {
			return rc.Control(func(fd uintptr) { syscall.SetsockoptInt(int(fd), syscall.SOL_SOCKET, syscall.SO_RCVBUF, 4096) })
		}}
		conn, err := dl.Dial("tcp", r.front)
		if err != nil {
			c.Inconclusive("cannot connect to the emulator: " + err.Error())
			return
		}
		defer conn.Close()
		fmt.Fprintf(conn, "POST /2015-03-31/functions/function/invocations HTTP/1.1\r\nHost: x\r\nContent-Length: %d\r\nConnection: close\r\n\r\n", len(body1))
		go conn.Write(body1)
		br := bufio.NewReaderSize(conn, 512)
		conn.SetReadDeadline(time.Now().Add(30 * time.Second))
		resp1, err := http.ReadResponse(br, nil)
		if err != nil {
			c.Check(false, "binary_slow_reader", P+"/binary/slow-reader/no-response", "slow caller got no response head", err.Error())
			return
		}
		// the head is here, the body is stuck behind a 4 KiB window: now the second caller comes and goes
		time.Sleep(50 * time.Millisecond)
		h2 := r.invoke(body2, nil)
		c.Check(h2.Err == nil && h2.Code == 200 && bytes.Equal(h2.Body, append([]byte("BIN:"), body2...)), "binary_second_caller_exact", P+"/binary/slow-reader/second-caller", fmt.Sprintf("second caller (while the first still reads): status %d err %v, %d bytes", h2.Code, h2.Err, len(h2.Body)), nil)
		conn.SetReadDeadline(time.Now().Add(60 * time.Second))
		got1, err := io.ReadAll(resp1.Body)
		want1 := append([]byte("BIN:"), body1...)
		if !c.Check(err == nil && bytes.Equal(got1, want1), "binary_slow_reader_exact", P+"/binary/slow-reader/first-caller-bytes", fmt.Sprintf("the slow caller received %d bytes (err %v), first difference at %d of %d: it must get its own response, whatever was served meanwhile", len(got1), err, firstDiff(got1, want1), len(want1)), nil) {
			return
		}
		expectOK("slow-reader-after", []byte("after"))
	case "roundtrip":
		rnd := rng(c.Seed, "binary-roundtrip")
		for i, sz := range []int{0, 1, 1000, 1 << 20, maxPayload, 17, 300000, 9} {
			body := randBytes(rnd, sz)
			cc := fmt.Sprintf(`{"custom":{"i":"%d é"}}`, i)
			if i%2 == 0 {
				// standard base64 form contains '+' and '/' (runs of six hold an aligned triple)
				cc = fmt.Sprintf(`{"custom":{"i":"%d ~~~~~~ ?????? >>>>>>"}}`, i)
			}
			hd := map[string]string{"X-Amz-Client-Context": base64.StdEncoding.EncodeToString([]byte(cc))}
			if i%2 == 1 || i >= 6 {
				hd["__chunked"] = "1"
			}
			h := r.invoke(body, hd)
			want := append([]byte("BIN:"), body...)
			if len(want) > maxPayload {
				// the response would exceed the limit: expect the oversize error instead
				c.Check(h.Code == 200 && bytes.Contains(h.Body, []byte("Function.ResponseSizeTooLarge")), "binary_oversize", P+"/binary/oversize", "oversized response over real HTTP", trunc(h.Body))
			} else {
				c.Check(h.Err == nil && h.Code == 200 && bytes.Equal(h.Body, want), "binary_roundtrip_exact", P+"/binary/roundtrip-bytes", fmt.Sprintf("size %d: status %d err %v, %d bytes back", sz, h.Code, h.Err, len(h.Body)), nil)
			}
			if !aliveCheck("roundtrip") {
				return
			}
			var last map[string]interface{}
			for _, m := range r.actorLog() {
				if m["ev"] == "event" {
					if last == nil || m["t"].(float64) > last["t"].(float64) {
						last = m
					}
				}
			}
			if c.Check(last != nil, "binary_event_seen", P+"/binary/no-event", "the runtime process did not log the event", nil) {
				c.Check(int(last["len"].(float64)) == sz && last["cc"] == cc && last["arn"] == "arn:aws:lambda:us-east-1:012345678912:function:binfn", "binary_event_fields", P+"/binary/event-fields", "event length / client context / ARN differ at the runtime process", last)
				dl, _ := strconv.ParseInt(fmt.Sprint(last["deadline"]), 10, 64)
				now := time.Now().UnixMilli()
				c.Check(dl > now+15000 && dl < now+21000, "binary_deadline", P+"/binary/deadline", "deadline header is not arrival + configured timeout", []int64{dl, now})
			}
		}
		if d.Ext != "" {
			n := 0
			for _, m := range r.actorLog() {
				if m["ev"] == "ext-event" && m["type"] == "INVOKE" {
					n++
				}
			}
			c.Check(n == 8, "binary_extension_events", fmt.Sprintf("%s/binary/extension-event-count/%d", P, n), "the real extension process did not receive one INVOKE event per invocation", n)
		}
	case "concurrent":
		n, _ := strconv.Atoi(d.Arg)
		res := make([]httpResp, n)
		var wg sync.WaitGroup
		wg.Add(1)
		go func() { defer wg.Done(); res[0] = r.invoke([]byte("first"), nil) }()
		// wait until the runtime has the event
		dl := time.Now().Add(8 * time.Second)
		for time.Now().Before(dl) {
			got := false
			for _, m := range r.actorLog() {
				if m["ev"] == "event" {
					got = true
				}
			}
			if got {
				break
			}
			time.Sleep(5 * time.Millisecond)
		}
		for i := 1; i < n; i++ {
			wg.Add(1)
			go func(i int) { defer wg.Done(); res[i] = r.invoke([]byte("extra"), nil) }(i)
		}
		wg.Wait()
		if !aliveCheck("concurrent callers") {
			return
		}
		c.Check(res[0].Code == 200 && bytes.Equal(res[0].Body, []byte("BIN:first")), "binary_first_unaffected", P+"/binary/first-disturbed", "in-flight HTTP invocation disturbed", []string{fmt.Sprint(res[0].Code), fmt.Sprint(res[0].Err)})
		for i := 1; i < n; i++ {
			c.Check(res[i].Err == nil && res[i].Code == 400, "binary_extra_400", fmt.Sprintf("%s/binary/extra-status/%d", P, res[i].Code), fmt.Sprintf("concurrent caller got %d (%v)", res[i].Code, res[i].Err), nil)
		}
		expectOK("after-concurrent", []byte("next"))
	case "failure":
		if d.Arg == "init-error" || d.Arg == "exit-before-next" {
			time.Sleep(150 * time.Millisecond)
		}
		h := r.invoke([]byte("doomed"), nil)
		if !aliveCheck("process fault " + d.Arg) {
			return
		}
		c.Check(h.Err == nil && h.Code == 502, "binary_failure_502", fmt.Sprintf("%s/binary/failure-status/%s/%d", P, d.Arg, h.Code), fmt.Sprintf("%s: status %d err %v", d.Arg, h.Code, h.Err), trunc(h.Body))
		var fe funcErr
		json.Unmarshal(h.Body, &fe)
		switch d.Arg {
		case "crash-after-next", "crash-signal":
			c.Check(fe.ErrorType == "Runtime.ExitError", "binary_failure_body", P+"/binary/failure-body/"+d.Arg, "body does not name Runtime.ExitError", trunc(h.Body))
			if d.Arg == "crash-signal" {
				c.Check(strings.Contains(fe.ErrorMessage, "signal: killed"), "binary_signal_truthful", P+"/binary/signal-message", "terminating signal not reported", fe.ErrorMessage)
			} else {
				c.Check(strings.Contains(fe.ErrorMessage, "exit status 3"), "binary_exit_status_truthful", P+"/binary/exit-status-message", "exit status not reported", fe.ErrorMessage)
			}
		case "exit-before-next":
			c.Check(len(h.Body) == 0, "binary_failure_body", P+"/binary/failure-body/"+d.Arg, "unreported init fault yielded a body", trunc(h.Body))
		case "init-error":
			c.Check(bytes.Contains(h.Body, []byte("actor init error")), "binary_failure_body", P+"/binary/failure-body/"+d.Arg, "init error payload not returned", trunc(h.Body))
		case "respond-then-exit":
			c.Check(bytes.Equal(h.Body, []byte("BIN:doomed")), "binary_failure_body", P+"/binary/failure-body/"+d.Arg, "delivered response not returned", trunc(h.Body))
		case "ext-crash-on-event":
			c.Check(fe.ErrorType == "Extension.Crash" || bytes.Equal(h.Body, []byte("BIN:doomed")), "binary_failure_body", P+"/binary/failure-body/"+d.Arg, "neither Extension.Crash nor the delivered response", trunc(h.Body))
		}
		// the processes of the failed environment are gone
		for _, m := range starts("runtime")[:min(1, len(starts("runtime")))] {
			st := pidState(int(m["pid"].(float64)))
			c.Check(st == "gone" || st == "Z", "binary_reaped", P+"/binary/not-reaped", "runtime process of the failed environment still running", st)
		}
		expectOK("recovery-after-"+d.Arg, []byte("again"))
		c.Check(len(starts("runtime")) >= 2, "binary_fresh_process", P+"/binary/no-new-process", "no new runtime process was started for the recovery invocation", len(starts("runtime")))
	case "timeout":
		h := r.invoke([]byte("stall"), nil)
		if !aliveCheck("timeout") {
			return
		}
		c.Check(h.Err == nil && h.Code == 200 && string(h.Body) == "Task timed out after 1.00 seconds", "binary_timeout_text", P+"/binary/timeout-text", "timeout outcome over real HTTP", []string{fmt.Sprint(h.Code), string(h.Body), fmt.Sprint(h.Err)})
		c.Check(h.Took >= 995*time.Millisecond && h.Took <= 1*time.Second+2*time.Second+2500*time.Millisecond, "binary_timeout_bounded", P+"/binary/timeout-duration", fmt.Sprintf("answered after %.0f ms", float64(h.Took)/1e6), nil)
		for _, role := range []string{"runtime", "myext"} {
			for _, m := range starts(role)[:min(1, len(starts(role)))] {
				st := pidState(int(m["pid"].(float64)))
				c.Check(st == "gone" || st == "Z", "binary_reaped", P+"/binary/not-reaped/"+role, role+" process of the timed-out environment still running (state "+st+")", nil)
			}
		}
		if d.Ext != "" {
			got := 0
			for _, m := range r.actorLog() {
				if m["ev"] == "ext-event" && m["type"] == "SHUTDOWN" {
					got++
				}
			}
			c.Check(got == 1, "binary_shutdown_event", fmt.Sprintf("%s/binary/shutdown-events/%d", P, got), "the real extension process did not receive exactly one SHUTDOWN event", got)
		}
		expectOK("after-timeout", []byte("again"))
	case "environ":
		expectOK("environ", []byte("e"))
		rs := starts("runtime")
		es := starts("myext")
		if c.Check(len(rs) >= 1 && len(es) >= 1, "binary_env_logged", P+"/binary/env-not-logged", "actor processes did not log their environment", nil) {
			re := rs[0]["env"].(map[string]interface{})
			ee := es[0]["env"].(map[string]interface{})
			c.Check(re["WEIRD"] == "a=b=c" && re["AWS_ACCESS_KEY_ID"] == "AKIA-BIN" && re["_HANDLER"] == "my.handler", "binary_env_runtime", P+"/binary/env-runtime", "runtime process environment", []interface{}{re["WEIRD"], re["_HANDLER"]})
			v, ok := re["EMPTYVAL"]
			c.Check(ok && v == "", "binary_env_empty", P+"/binary/env-empty", "empty-valued variable lost", nil)
			c.Check(re["AWS_LAMBDA_RUNTIME_API"] == r.api && ee["AWS_LAMBDA_RUNTIME_API"] == r.api, "binary_env_api_address", P+"/binary/env-api-address", "AWS_LAMBDA_RUNTIME_API is not the configured listening address in both processes", []interface{}{re["AWS_LAMBDA_RUNTIME_API"], ee["AWS_LAMBDA_RUNTIME_API"]})
			_, hasHandler := ee["_HANDLER"]
			c.Check(!hasHandler && ee["WEIRD"] == "a=b=c", "binary_env_extension_filtered", P+"/binary/env-extension", "extension process environment not filtered / incomplete", nil)
		}
	}
	aliveCheck("end of scenario")
	c.SetTrace(fmt.Sprintf("binary/%s/%s/%s", d.Kind, d.Arg, d.Ext), true)
	if c.WantSample || c.Violated() {
		var lines []string
		for _, m := range r.actorLog() {
			delete(m, "env")
			b, _ := json.Marshal(m)
			lines = append(lines, string(b))
		}
		if len(lines) > 60 {
			lines = lines[:60]
		}
		c.SetSample(map[string]interface{}{"actor_log": lines, "emulator_stderr_tail": r.stderrTail()})
	}
}
