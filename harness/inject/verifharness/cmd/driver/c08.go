package main

import (
	"encoding/json"
	"fmt"
	"sort"
	"strings"
	"sync"
	"time"

	"go.amzn.com/verifharness/vh"
)

// C08 — a reset leaves no trace of earlier generations.
// Relational oracle: suffix S after prefix P and reset R on instance A must
// produce the same normalised trace as S on a reference instance B (fresh, or
// with the trivial prefix "init completed, explicit reset").

func init() { register("C08", genC08) }

type c08Desc struct {
	Prefix  string `json:"prefix"`
	Trigger string `json:"trigger"` // auto | explicit
	Suffix  string `json:"suffix"`
	Late    string `json:"late,omitempty"`    // late-notification order: "", beforeCtxClear, beforeServerClear, afterRelease, afterDispatch
	LateAt  string `json:"late_at,omitempty"` // where the watcher is paused: "" = after it handled the exit; "cancel" = at its entry into CancelFlows (bounded pause)
	NExt    int    `json:"extensions"`
}

var c08Prefixes = []string{"none", "healthy1", "healthy3", "initerror", "rtcrash", "rtcrashidle", "extcrash", "timeout", "extiniterror", "extexiterror", "internal", "doublenext", "midinit", "useragent", "oversize", "extstall", "shutdownexiterror", "inittimeout"}
var c08Suffixes = []string{"healthy2", "subs", "initerror", "crash", "errorresp"}

func genC08(tier string, seed int64) []Case {
	var cases []Case
	seen := map[string]bool{}
	add := func(d c08Desc) {
		id := fmt.Sprintf("C08/%s/%s/%s/n%d", d.Prefix, d.Trigger, d.Suffix, d.NExt)
		if d.Late != "" {
			id += "/late-" + d.Late + d.LateAt
		}
		if seen[id] {
			return
		}
		seen[id] = true
		cls := "relational"
		if d.Late != "" {
			cls = "late:" + d.Late
		}
		cases = append(cases, Case{ID: id, Class: cls, Desc: d, Timeout: 60 * time.Second, Run: func(c *Ctx) { runC08(c, d) }})
	}
	for _, p := range c08Prefixes {
		for _, trg := range []string{"auto", "explicit"} {
			for si, s := range c08Suffixes {
				if tier != "thorough" && si > 1 && (len(p)+si)%2 == 0 {
					continue
				}
				add(c08Desc{Prefix: p, Trigger: trg, Suffix: s, NExt: 2})
			}
		}
	}
	// suffix in which an extension of the first new generation dies before it registers: noticed at once, as on a fresh instance
	for _, pt := range [][2]string{{"healthy1", "explicit"}, {"timeout", "auto"}, {"rtcrash", "auto"}, {"extcrash", "auto"}, {"healthy3", "explicit"}} {
		for n := 1; n <= 2; n++ {
			add(c08Desc{Prefix: pt[0], Trigger: pt[1], Suffix: "extearly", NExt: n})
		}
	}
	// an invocation that expired while the initialisation hung, then (after healthy service) a crash: the crash is
	// reported as what it is, as on a fresh instance
	add(c08Desc{Prefix: "inittimeout", Trigger: "auto", Suffix: "crash", NExt: 0})
	add(c08Desc{Prefix: "inittimeout", Trigger: "auto", Suffix: "crash", NExt: 1})
	add(c08Desc{Prefix: "midinit", Trigger: "explicit", Suffix: "crash", NExt: 1}) // known finding (see known_findings.jsonl)
	add(c08Desc{Prefix: "healthy1", Trigger: "explicit", Suffix: "healthy2", Late: "afterRelease", LateAt: "received", NExt: 0})
	add(c08Desc{Prefix: "timeout", Trigger: "auto", Suffix: "healthy2", Late: "afterDispatch", LateAt: "received", NExt: 0})
	add(c08Desc{Prefix: "healthy1", Trigger: "explicit", Suffix: "crash", Late: "afterRelease", LateAt: "received", NExt: 0})
	add(c08Desc{Prefix: "timeout", Trigger: "auto", Suffix: "crash", Late: "afterRelease", LateAt: "received", NExt: 0})
	add(c08Desc{Prefix: "healthy3", Trigger: "explicit", Suffix: "errorresp", Late: "afterRelease", LateAt: "received", NExt: 0})
	// late-notification orders: the held exit notification is always the LAST one of the old
	// generation, so that holding the watcher delays nothing the reset itself waits for
	for _, late := range []string{"beforeCtxClear", "beforeServerClear", "afterRelease", "afterDispatch"} {
		add(c08Desc{Prefix: "timeout", Trigger: "auto", Suffix: "healthy2", Late: late, NExt: 0})
		add(c08Desc{Prefix: "healthy1", Trigger: "explicit", Suffix: "healthy2", Late: late, NExt: 0})
		add(c08Desc{Prefix: "healthy3", Trigger: "explicit", Suffix: "crash", Late: late, NExt: 0})
		add(c08Desc{Prefix: "rtcrash", Trigger: "auto", Suffix: "healthy2", Late: late, NExt: 1})
		add(c08Desc{Prefix: "extcrash", Trigger: "auto", Suffix: "healthy2", Late: late, NExt: 1})
		add(c08Desc{Prefix: "extexiterror", Trigger: "auto", Suffix: "subs", Late: late, NExt: 1})
		add(c08Desc{Prefix: "timeout", Trigger: "auto", Suffix: "healthy2", Late: late, LateAt: "cancel", NExt: 0})
		add(c08Desc{Prefix: "healthy1", Trigger: "explicit", Suffix: "healthy2", Late: late, LateAt: "cancel", NExt: 0})
		add(c08Desc{Prefix: "healthy3", Trigger: "explicit", Suffix: "crash", Late: late, LateAt: "cancel", NExt: 0})
		add(c08Desc{Prefix: "rtcrash", Trigger: "auto", Suffix: "healthy2", Late: late, LateAt: "cancel", NExt: 1})
		add(c08Desc{Prefix: "extcrash", Trigger: "auto", Suffix: "healthy2", Late: late, LateAt: "cancel", NExt: 1})
	}
	if tier == "thorough" {
		for _, p := range c08Prefixes {
			for _, s := range c08Suffixes {
				for _, n := range []int{0, 1} {
					if n == 0 && strings.HasPrefix(p, "ext") || n == 0 && (p == "midinit" || p == "doublenext" || p == "shutdownexiterror") {
						continue // these prefixes need an extension
					}
					add(c08Desc{Prefix: p, Trigger: []string{"auto", "explicit"}[n], Suffix: s, NExt: n})
				}
			}
		}
		// every late-notification order x both pause places x more prefixes x every suffix
		for _, late := range []string{"beforeCtxClear", "beforeServerClear", "afterRelease", "afterDispatch"} {
			for _, at := range []string{"", "cancel"} {
				for _, p := range []string{"timeout", "healthy1", "healthy3", "rtcrash", "extcrash", "useragent"} {
					for _, s := range c08Suffixes {
						n := 0
						if strings.HasPrefix(p, "ext") || p == "rtcrash" {
							n = 1
						}
						trg := "auto"
						if strings.HasPrefix(p, "healthy") || p == "useragent" {
							trg = "explicit"
						}
						add(c08Desc{Prefix: p, Trigger: trg, Suffix: s, Late: late, LateAt: at, NExt: n})
					}
				}
			}
		}
	}
	return cases
}

// c08Result is what is compared between A and B.
type c08Result struct {
	Callers  []string            // per suffix invocation: outcome + body
	Parties  map[string][]string // per normalised party: sequence of op/status/etype/body
	SupExecs []string            // per exec: name (normalised) + env digest
	SupOther []string            // sorted multiset of term/kill per episode
	Events   []string            // sorted multiset of event summaries
	State    string              // internal state right before the suffix
	Done     []string
	log      []string
}

func runC08(c *Ctx, d c08Desc) {
	a := c08Instance(c, d, true)
	if a == nil {
		return
	}
	ref := d
	ref.Prefix, ref.Trigger, ref.Late = "none", "explicit", ""
	b := c08Instance(c, ref, true)
	if b == nil {
		return
	}
	cmp := func(what, sig string, x, y interface{}) {
		xs, _ := json.Marshal(x)
		ys, _ := json.Marshal(y)
		c.Check(string(xs) == string(ys), "suffix_equal_"+what, "C08/differs/"+sig+"/"+d.Prefix+"/"+d.Suffix, fmt.Sprintf("after prefix %q + %s reset the %s of suffix %q differ from the reference instance", d.Prefix, d.Trigger, what, d.Suffix), map[string]interface{}{"after_reset": x, "reference": y})
	}
	cmp("caller_outcomes", "callers", a.Callers, b.Callers)
	cmp("party_traces", "parties", a.Parties, b.Parties)
	cmp("exec_requests", "execs", a.SupExecs, b.SupExecs)
	cmp("supervisor_requests", "sup", a.SupOther, b.SupOther)
	cmp("platform_events", "events", a.Events, b.Events)
	cmp("state_after_reset", "state", a.State, b.State)
	if c.Violated() || c.WantSample {
		c.SetSample(map[string]interface{}{"after_reset": a.log, "reference": b.log})
	}
	c.SetTrace(fmt.Sprintf("%s/%s/%s/%s/n%d", d.Prefix, d.Trigger, d.Suffix, d.Late, d.NExt)+strings.Join(a.Callers, ";"), true)
	c.SetInterleaving(d.Late)
}

func c08Instance(c *Ctx, d c08Desc, _ bool) *c08Result {
	exts := []string{}
	for i := 0; i < d.NExt; i++ {
		exts = append(exts, fmt.Sprintf("ext%d", i))
	}
	timeout := int64(6000)
	if d.Prefix == "timeout" || d.Prefix == "extstall" || d.Prefix == "inittimeout" {
		timeout = 300
	}
	w, err := NewWorld(vh.Config{TimeoutMs: timeout, Extensions: exts, CustomerEnv: map[string]string{"CUST": "v=1"}})
	if err != nil {
		c.Inconclusive("harness: " + err.Error())
		return nil
	}
	defer w.Close()
	hk := w.Hk

	var mu sync.Mutex
	phase := "prefix" // prefix | suffix
	sufGen0 := 0      // first generation number of the suffix
	getPhase := func(gen int) (string, int) {
		mu.Lock()
		defer mu.Unlock()
		if phase == "suffix" && gen >= sufGen0 {
			return "suffix", gen
		}
		return "prefix", gen
	}
	sufRtCount := 0
	idleNow := make(chan struct{})
	var idleOnce sync.Once
	sufExt0Count := 0
	respond := func(pt *vh.Party, ev *vh.Resp) {
		pt.Respond(ev.ReqID(), append([]byte("R:"), ev.Body...), nil)
	}
	// ---- behaviours ----
	w.RtPlan = func(gen int, p *vh.Proc) vh.ExecPlan {
		ph, _ := getPhase(gen)
		if ph == "suffix" {
			mu.Lock()
			k := sufRtCount
			sufRtCount++
			mu.Unlock()
			o := RtOpts{}
			switch d.Suffix {
			case "initerror":
				if k == 0 {
					o.BeforeFirstNext = func(p *vh.Proc, pt *vh.Party) *vh.Exit {
						pt.InitError([]byte(`{"errorMessage":"suffix init error"}`), map[string]string{"Lambda-Runtime-Function-Error-Type": "Runtime.SuffixInit"})
						return &vh.Exit{Code: 7}
					}
				}
			case "crash":
				if k == 0 {
					o.Handle = func(p *vh.Proc, pt *vh.Party, n int, ev *vh.Resp) *vh.Exit { return &vh.Exit{Code: 9} }
				}
			case "errorresp":
				o.Handle = func(p *vh.Proc, pt *vh.Party, n int, ev *vh.Resp) *vh.Exit {
					pt.Error(ev.ReqID(), []byte(`{"errorMessage":"E"}`), map[string]string{"Lambda-Runtime-Function-Error-Type": "Function.SuffixErr", "Content-Type": "application/json"})
					return nil
				}
			}
			if o.Handle == nil {
				o.Handle = func(p *vh.Proc, pt *vh.Party, n int, ev *vh.Resp) *vh.Exit { respond(pt, ev); return nil }
			}
			return vh.ExecPlan{Behave: w.RtLoop(o)}
		}
		// prefix behaviours (generation 1 unless stated)
		o := RtOpts{Handle: func(p *vh.Proc, pt *vh.Party, n int, ev *vh.Resp) *vh.Exit { respond(pt, ev); return nil }}
		switch d.Prefix {
		case "initerror":
			o.BeforeFirstNext = func(p *vh.Proc, pt *vh.Party) *vh.Exit {
				pt.InitError([]byte(`{"errorMessage":"prefix init error","marker":"PREFIX"}`), map[string]string{"Lambda-Runtime-Function-Error-Type": "Runtime.PrefixInit"})
				return &vh.Exit{Code: 1}
			}
		case "rtcrash":
			o.Handle = func(p *vh.Proc, pt *vh.Party, n int, ev *vh.Resp) *vh.Exit { return &vh.Exit{Code: 2} }
		case "rtcrashidle":
			o.AfterHandle = func(p *vh.Proc, pt *vh.Party, n int) *vh.Exit {
				go func() {
					dl := time.Now().Add(3 * time.Second)
					for time.Now().Before(dl) && w.E.RuntimeState() != "Ready" {
						time.Sleep(200 * time.Microsecond)
					}
					// "idle" = the invocation has been answered AND has returned to its caller (a crash
					// between the two is a crash during the invocation: another history)
					select {
					case <-idleNow:
					case <-time.After(3 * time.Second):
					case <-p.Ctx.Done():
					}
					time.Sleep(2 * time.Millisecond)
					p.RequestExit(vh.Exit{Signal: 11})
				}()
				return nil
			}
		case "timeout":
			o.Handle = func(p *vh.Proc, pt *vh.Party, n int, ev *vh.Resp) *vh.Exit { return Stall(p) }
		case "inittimeout":
			// the initialisation hangs: the prefix invocation expires while still waiting for it
			o.BeforeFirstNext = func(p *vh.Proc, pt *vh.Party) *vh.Exit { return Stall(p) }
		case "internal":
			o.BeforeFirstNext = func(p *vh.Proc, pt *vh.Party) *vh.Exit {
				ip := vh.NewParty("ext:internal-prefix", w.E.Addr, w.E.Log, p.Ctx)
				if r := ip.Register("internal-prefix", []string{"INVOKE"}, ""); r.Status == 200 {
					go func() {
						for {
							r := ip.ExtNext()
							if r.Status != 200 || r.Err != nil {
								return
							}
						}
					}()
				}
				return nil
			}
		case "useragent":
			ua := map[string]string{"User-Agent": "aws-lambda-custom/" + strings.Repeat("u", 60), "Lambda-Runtime-Features": strings.Repeat("feat ", 30)}
			o.BeforeFirstNext = func(p *vh.Proc, pt *vh.Party) *vh.Exit { return nil }
			o.Handle = func(p *vh.Proc, pt *vh.Party, n int, ev *vh.Resp) *vh.Exit {
				pt.Respond(ev.ReqID(), append([]byte("R:"), ev.Body...), ua)
				return nil
			}
		case "oversize":
			o.Handle = func(p *vh.Proc, pt *vh.Party, n int, ev *vh.Resp) *vh.Exit {
				pt.Respond(ev.ReqID(), make([]byte, maxPayload+1), nil)
				return nil
			}
		}
		return vh.ExecPlan{Behave: w.RtLoop(o)}
	}
	w.ExtPlan = func(base string, gen int, p *vh.Proc) vh.ExecPlan {
		ph, _ := getPhase(gen)
		idx := strings.TrimPrefix(base, "ext")
		if ph == "suffix" {
			ev := []string{"INVOKE", "SHUTDOWN"}
			if d.Suffix == "subs" {
				// different subscription sets than in the prefix
				if idx == "0" {
					ev = []string{"SHUTDOWN"}
				} else {
					ev = []string{"INVOKE"}
				}
			}
			o := ExtOpts{Events: ev, Features: "accountId"}
			if d.Suffix == "extearly" && idx == "0" {
				mu.Lock()
				k := sufExt0Count
				sufExt0Count++
				mu.Unlock()
				if k == 0 {
					o.BeforeRegister = func(p *vh.Proc, pt *vh.Party) *vh.Exit { return &vh.Exit{Code: 6} }
				}
			}
			return vh.ExecPlan{Behave: w.ExtLoop(o)}
		}
		o := ExtOpts{Events: []string{"INVOKE", "SHUTDOWN"}}
		if idx == "1" {
			o.Events = []string{"INVOKE"}
		}
		if idx == "0" {
			switch d.Prefix {
			case "extcrash":
				o.OnEvent = func(p *vh.Proc, pt *vh.Party, n int, ev *vh.Resp) *vh.Exit { return &vh.Exit{Code: 4} }
			case "extiniterror":
				o.AfterRegister = func(p *vh.Proc, pt *vh.Party, reg *vh.Resp) *vh.Exit {
					pt.ExtInitError(pt.ID(), "Extension.PrefixInit")
					return &vh.Exit{Code: 5}
				}
			case "extexiterror":
				o.OnEvent = func(p *vh.Proc, pt *vh.Party, n int, ev *vh.Resp) *vh.Exit {
					pt.ExtExitError(pt.ID(), "Extension.PrefixExit")
					return &vh.Exit{Code: 6}
				}
			case "doublenext":
				o.AfterRegister = func(p *vh.Proc, pt *vh.Party, reg *vh.Resp) *vh.Exit {
					// a second, concurrent next from the same extension (excess barrier arrival)
					id := pt.ID()
					p2 := vh.NewParty(pt.Src+"#2", w.E.Addr, w.E.Log, p.Ctx)
					go func() {
						time.Sleep(2 * time.Millisecond)
						p2.ExtNextID(id)
					}()
					return nil
				}
			case "shutdownexiterror":
				// healthy during invocations; on the SHUTDOWN event of the teardown it reports an exit error and leaves
				o.OnEvent = func(p *vh.Proc, pt *vh.Party, n int, ev *vh.Resp) *vh.Exit {
					if parseExtEvent(ev.Body).EventType == "SHUTDOWN" {
						pt.ExtExitError(pt.ID(), "Extension.TeardownExit")
						return &vh.Exit{Code: 6}
					}
					return nil
				}
			case "extstall":
				o.OnEvent = func(p *vh.Proc, pt *vh.Party, n int, ev *vh.Resp) *vh.Exit { return Stall(p) }
				o.IgnoreTerm = true
			case "midinit":
				o.AfterRegister = func(p *vh.Proc, pt *vh.Party, reg *vh.Resp) *vh.Exit { return Stall(p) }
			}
		}
		return vh.ExecPlan{Behave: w.ExtLoop(o)}
	}

	// ---- late notification: hold the events watcher after it recorded an exit of the old generation ----
	latePoint := "watchEvents.exitRecorded"
	if d.Late != "" {
		nth := 1
		if d.Prefix == "rtcrash" || d.Prefix == "extcrash" || d.Prefix == "extexiterror" {
			nth = 2 // the first exit is the fault itself; the second one is consumed by the reset
		}
		if d.LateAt == "cancel" {
			// the watcher is paused between "exit event received" and its CancelFlows call; in the
			// order the code is meant to have (cancel, then record) nothing has happened yet, so the
			// pause only delays the notification - it is bounded well below the 2 s the teardown
			// waits for exits, so that correct code is never pushed into its give-up path
			latePoint = "registrations.cancelFlows"
			hk.HoldAfter(latePoint, "watchEvents.received", nth)
			go func() {
				if hk.WaitHeld(latePoint, 30*time.Second) {
					time.Sleep(300 * time.Millisecond)
					hk.Release(latePoint)
				}
			}()
		} else if d.LateAt == "received" {
			// the notification itself is late: the watcher has not even looked at the event when the
			// teardown gives up waiting for it (2 s) and the reset completes
			latePoint = "watchEvents.received"
			hk.Hold(latePoint, nth)
		} else {
			hk.Hold(latePoint, nth)
		}
		switch d.Late {
		case "beforeCtxClear":
			hk.Hold("rapidCtx.beforeClear", 0)
		case "beforeServerClear":
			hk.Hold("serverReset.beforeClear", 0)
		}
	}

	w.E.Init()
	invoke := func(tag string, wait time.Duration) *vh.Invocation {
		inv := w.E.InvokeAsync([]byte("ev-"+tag), vh.InvokeOpts{TraceID: "Root=1-0000000a-" + tag})
		if !inv.Wait(wait) {
			return nil
		}
		return inv
	}
	long := time.Duration(timeout)*time.Millisecond + 10*time.Second
	// ---- prefix ----
	needExplicit := d.Trigger == "explicit"
	autoReset := false
	switch d.Prefix {
	case "none":
		// wait for init to complete (init-report emitted, every party parked)
		dl := time.Now().Add(8 * time.Second)
		for time.Now().Before(dl) {
			done := false
			for _, e := range w.E.Log.Snapshot() {
				if e.Src == "events" && e.Op == "InitReport" {
					done = true
				}
			}
			if done {
				break
			}
			time.Sleep(300 * time.Microsecond)
		}
		time.Sleep(2 * time.Millisecond)
		needExplicit = true
	case "midinit":
		if d.NExt == 0 {
			dl := time.Now().Add(5 * time.Second)
			for time.Now().Before(dl) && w.E.RuntimeState() != "Ready" {
				time.Sleep(200 * time.Microsecond)
			}
		} else {
			// ext0 registered and stalls: init cannot complete
			dl := time.Now().Add(5 * time.Second)
			for time.Now().Before(dl) && w.E.ExtState("ext0") != "Registered" {
				time.Sleep(200 * time.Microsecond)
			}
			time.Sleep(2 * time.Millisecond)
		}
		needExplicit = true
	case "healthy1", "healthy3", "internal", "doublenext", "useragent", "oversize", "shutdownexiterror":
		n := 1
		if d.Prefix == "healthy3" {
			n = 3
		}
		for i := 0; i < n; i++ {
			if inv := invoke(fmt.Sprintf("p%d", i), long); inv == nil {
				c.Check(false, "prefix_completes", "C08/prefix-hang/"+d.Prefix, "prefix invocation never returned", nil)
				c.SetSample(sampleLog(w, 150))
				return nil
			}
		}
		needExplicit = true
	default:
		// failing prefixes: the failure / timeout triggers the automatic reset
		if d.Prefix == "rtcrashidle" {
			if inv := invoke("p0", long); inv == nil {
				c.Check(false, "prefix_completes", "C08/prefix-hang/"+d.Prefix, "prefix invocation never returned", nil)
				return nil
			}
			idleOnce.Do(func() { close(idleNow) })
			// wait for the idle crash
			dl := time.Now().Add(5 * time.Second)
			for time.Now().Before(dl) {
				if p := w.E.WaitRuntime(1, 0); p != nil && !p.Alive() {
					break
				}
				time.Sleep(300 * time.Microsecond)
			}
			time.Sleep(3 * time.Millisecond)
		}
		if d.Late != "" && d.Prefix != "healthy1" {
			// the automatic reset will be held up by the paused watcher only if it needs the exit; run the invoke async
		}
		inv := w.E.InvokeAsync([]byte("ev-pfail"), vh.InvokeOpts{})
		if d.Late == "" {
			if !inv.Wait(long) {
				c.Check(false, "prefix_completes", "C08/prefix-hang/"+d.Prefix, "failing prefix invocation never returned", nil)
				c.SetSample(sampleLog(w, 150))
				return nil
			}
		} else {
			c08LateDance(c, w, d, inv, long)
		}
		autoReset = true
	}
	if needExplicit && !(autoReset && d.Trigger == "auto") {
		doneCh := make(chan struct{})
		go func() {
			w.E.Log.Add(vh.Event{Src: "drv", Kind: "call", Op: "reset"})
			w.E.Srv.Reset("explicit", 2000)
			w.E.Log.Add(vh.Event{Src: "drv", Kind: "ret", Op: "reset"})
			close(doneCh)
		}()
		if d.Late != "" && !autoReset {
			c08LateDance(c, w, d, nil, long)
		}
		select {
		case <-doneCh:
		case <-time.After(15 * time.Second):
			c.Check(false, "reset_returns", "C08/reset-hang/"+d.Prefix, "explicit reset never returned", nil)
			c.SetSample(sampleLog(w, 150))
			return nil
		}
	}
	if d.Late == "afterRelease" {
		// reset is complete, nothing reserved: now let the late notification through
		hk.Release(latePoint)
		time.Sleep(3 * time.Millisecond)
	}

	// ---- quiescent point: state must be that of a fresh instance ----
	st := w.E.State()
	stStr := fmt.Sprintf("rt=%v ext=%d ffe=%q", st.Runtime != nil, len(st.Extensions), st.FirstFatalError)
	c.Check(st.Runtime == nil && len(st.Extensions) == 0 && st.FirstFatalError == "", "state_clean_after_reset", "C08/state-not-clean/"+d.Prefix, "internal state after reset still shows parties or a fatal error of the old generation", stStr)

	// ---- suffix ----
	mu.Lock()
	phase = "suffix"
	sufGen0 = maxGen(w) + 1
	mu.Unlock()
	sufStart := int64(w.E.Log.Len())
	res := &c08Result{Parties: map[string][]string{}, State: stStr}
	nInv := 2
	if d.Suffix == "initerror" || d.Suffix == "crash" || d.Suffix == "extearly" {
		nInv = 3
	}
	for i := 0; i < nInv; i++ {
		inv := w.E.InvokeAsync([]byte(fmt.Sprintf("ev-s%d", i)), vh.InvokeOpts{TraceID: fmt.Sprintf("Root=1-0000000b-%d", i)})
		if i == 0 && d.Late == "afterDispatch" {
			// let the late notification through once the new generation is being served
			dl := time.Now().Add(5 * time.Second)
			for time.Now().Before(dl) && maxGen(w) < sufGen0 {
				time.Sleep(100 * time.Microsecond)
			}
			time.Sleep(time.Millisecond)
			hk.Release(latePoint)
		}
		if !inv.Wait(6*time.Second + 10*time.Second) {
			c.Check(false, "suffix_completes", "C08/suffix-hang/"+d.Prefix+"/"+d.Suffix, "suffix invocation never returned", i)
			c.SetSample(sampleLog(w, 200))
			return nil
		}
		res.Callers = append(res.Callers, fmt.Sprintf("%s|%s", vh.ErrName(inv.Err), normBody(inv.W.Body())))
	}
	time.Sleep(2 * time.Millisecond)
	hk.ReleaseAll()
	evs := w.E.Log.Snapshot()
	ids := map[string]int{}
	idOrd := func(id string) string {
		if id == "" {
			return ""
		}
		if _, ok := ids[id]; !ok {
			ids[id] = len(ids) + 1
		}
		return fmt.Sprintf("#%d", ids[id])
	}
	// request ids in the order the platform announced them
	for _, e := range evs {
		if e.Seq > sufStart && e.Src == "events" && e.Op == "SetCurrentRequestID" {
			idOrd(e.ID)
		}
	}
	// generation numbers of the suffix are replaced by their rank (they advance by 2 or 3 per reset)
	gens := map[int]bool{}
	for _, p := range w.E.Sup.Procs() {
		if p.Gen >= sufGen0 {
			gens[p.Gen] = true
		}
	}
	rank := map[int]int{}
	for i, g := range sortedInts(gens) {
		rank[g] = i
	}
	genOff := func(name string) string {
		if i := strings.LastIndex(name, "-"); i >= 0 {
			var g int
			fmt.Sscanf(name[i+1:], "%d", &g)
			if r, ok := rank[g]; ok {
				return fmt.Sprintf("%s+%d", name[:i], r)
			}
			return fmt.Sprintf("%s+-%d", name[:i], g)
		}
		return name
	}
	episode := 0
	var supOther []string
	for _, e := range evs {
		if e.Seq <= sufStart {
			continue
		}
		switch {
		case e.Src == "events":
			switch e.Op {
			case "InitStart", "InitReport":
				res.Events = append(res.Events, e.Op)
			case "InitRuntimeDone", "InvokeRuntimeDone", "RestoreRuntimeDone":
				res.Events = append(res.Events, e.Op+"/"+e.Extra["status"]+"/"+e.Etype)
			case "ExtensionInit":
				// state and subscriptions at emission time depend on how far the extension got (decided by C15); the set of lines must agree
				res.Events = append(res.Events, e.Op+"/"+e.Extra["name"])
			case "InvokeStart":
				res.Events = append(res.Events, e.Op)
			}
		case e.Src == "sup" && e.Kind == "exec":
			episode++
		case e.Src == "sup" && (e.Kind == "term" || e.Kind == "kill"):
			if d.Suffix == "extearly" && strings.HasPrefix(e.Op, "extension-") && strings.HasSuffix(genOff(e.Op), "+0") {
				// whether the sibling of the extension that died at start is killed or was not even registered
				// yet / leaves by itself on the SHUTDOWN event is timing dependent
				continue
			}
			if !strings.Contains(genOff(e.Op), "+-") {
				supOther = append(supOther, e.Kind+"/"+genOff(e.Op))
			}
		case (strings.HasPrefix(e.Src, "rt:") || strings.HasPrefix(e.Src, "ext:")) && e.Kind == "ret":
			src := e.Src
			if i := strings.Index(src, ":"); i >= 0 && (strings.HasPrefix(src[i+1:], "runtime-") || strings.HasPrefix(src[i+1:], "extension-")) {
				src = src[:i+1] + genOff(src[i+1:])
				if strings.Contains(src, "+-") {
					continue // a party of the old generation observing its own death: not part of the suffix
				}
			} else if strings.Contains(src, "internal-prefix") || strings.HasSuffix(src, "#2") {
				continue
			}
			entry := fmt.Sprintf("%s/%d/%s", e.Op, e.Status, e.Etype)
			if e.Status == 0 {
				continue // the party was killed while the call was parked: teardown detail (C09), timing dependent
			}
			if e.Op == "extnext" && e.Len < 120 {
				continue // SHUTDOWN event (shorter than any INVOKE event): whether a dying generation's extension still polls when the reset arrives is timing dependent
			}
			res.Parties[src] = append(res.Parties[src], entry)
		}
	}
	if d.Suffix == "crash" || d.Suffix == "initerror" || d.Suffix == "extearly" {
		// what the extensions of the generation that dies in the suffix still manage to read before they
		// are torn down is timing dependent: only their existence (exec requests) is compared
		for k := range res.Parties {
			if strings.Contains(k, "extension-") && strings.HasSuffix(k, "+0") {
				delete(res.Parties, k)
			}
		}
	}
	sort.Strings(supOther)
	res.SupOther = supOther
	sort.Strings(res.Events)
	// body-level comparison of what parties received, and exec environments
	for name, pt := range w.AllParties() {
		var g int
		if i := strings.LastIndex(name, "-"); i >= 0 {
			fmt.Sscanf(name[i+1:], "%d", &g)
		}
		if g < sufGen0 {
			continue
		}
		key := "body:" + genOff(name)
		for _, h := range pt.History() {
			if h.Resp == nil || h.Resp.Status == 0 {
				continue
			}
			switch h.Op {
			case "register":
				res.Parties[key] = append(res.Parties[key], "register:"+string(h.Resp.Body))
			case "extnext":
				ev := parseExtEvent(h.Resp.Body)
				if ev.EventType == "SHUTDOWN" {
					continue
				}
				res.Parties[key] = append(res.Parties[key], fmt.Sprintf("extnext:%s/%s/%s/%s/%s", ev.EventType, idOrd(ev.RequestID), ev.InvokedFunctionArn, ev.ShutdownReason, ev.Tracing.Value))
			case "next":
				res.Parties[key] = append(res.Parties[key], fmt.Sprintf("next:%s/%s/%s", idOrd(h.Resp.ReqID()), vh.Digest(h.Resp.Body), h.Resp.Header.Get("Lambda-Runtime-Invoked-Function-Arn")))
			}
		}
	}
	if d.Suffix == "crash" || d.Suffix == "initerror" || d.Suffix == "extearly" {
		for k := range res.Parties {
			if strings.Contains(k, "extension-") && strings.HasSuffix(k, "+0") {
				delete(res.Parties, k)
			}
		}
	}
	for _, p := range w.E.Sup.Procs() {
		if p.Gen < sufGen0 {
			continue
		}
		var kv []string
		for _, k := range sortedKeys(p.Env) {
			v := p.Env[k]
			if k == "AWS_LAMBDA_RUNTIME_API" {
				v = "<addr>"
			}
			kv = append(kv, k+"="+v)
		}
		res.SupExecs = append(res.SupExecs, genOff(p.Name)+" "+p.Path+" env:"+vh.Digest([]byte(strings.Join(kv, "\n")))+fmt.Sprint(len(kv)))
	}
	sort.Strings(res.SupExecs)
	for i := range res.Callers {
		for id, n := range ids {
			res.Callers[i] = strings.ReplaceAll(res.Callers[i], id, fmt.Sprintf("#%d", n))
		}
	}
	if staleRequestLeak(w) {
		c.Taint("stale-inflight-request")
	}
	// another face of the same recorded defect: the register request of a killed extension, accepted by the server
	// but applied only after the reset, finds no external agent of that name any more and is taken for an
	// INTERNAL registration; launching the next generation's extension of that name then collides
	for _, cl := range res.Callers {
		if strings.Contains(cl, "ErrAgentNameCollision") && unackedOldRegister(w, sufGen0) {
			c.Taint("stale-inflight-request")
		}
	}
	c.SetHooks(hk.Arrived())
	res.log = sampleLog(w, 260)
	return res
}

// c08LateDance drives a reset whose exit notification is held back in the
// events watcher, according to d.Late.
func c08LateDance(c *Ctx, w *World, d c08Desc, inv *vh.Invocation, long time.Duration) {
	hk := w.Hk
	latePoint := "watchEvents.exitRecorded"
	if d.LateAt == "cancel" {
		latePoint = "registrations.cancelFlows"
	}
	if d.LateAt == "received" {
		latePoint = "watchEvents.received"
	}
	held := hk.WaitHeld(latePoint, 8*time.Second)
	if !held {
		// this prefix / trigger produced no exit notification to delay (e.g. nothing to kill)
		c.Counter("late_window_not_reached", 1)
		if inv != nil {
			inv.Wait(long)
		}
		return
	}
	c.Clause("late_window_reached")
	switch d.Late {
	case "beforeCtxClear":
		if hk.WaitHeld("rapidCtx.beforeClear", 8*time.Second) {
			hk.Release(latePoint)
			time.Sleep(2 * time.Millisecond)
			hk.Release("rapidCtx.beforeClear")
		}
	case "beforeServerClear":
		if hk.WaitHeld("serverReset.beforeClear", 8*time.Second) {
			hk.Release(latePoint)
			time.Sleep(2 * time.Millisecond)
			hk.Release("serverReset.beforeClear")
		}
	}
	if inv != nil {
		if !inv.Wait(long) {
			c.Check(false, "prefix_completes", "C08/prefix-hang-late/"+d.Prefix, "failing prefix invocation never returned while an exit notification was held", nil)
		}
	}
}

func normBody(b []byte) string {
	if len(b) > 200 {
		return fmt.Sprintf("%d:%s", len(b), vh.Digest(b))
	}
	return string(b)
}

func sortCSV(s string) string {
	p := strings.Split(s, ",")
	sort.Strings(p)
	return strings.Join(p, ",")
}

// unackedOldRegister: a register call of a process started before generation gen0 never got its answer
// (the process was killed while the request was in flight).
func unackedOldRegister(w *World, gen0 int) bool {
	evs := w.E.Log.Snapshot()
	calls := map[int64]vh.Event{}
	for _, e := range evs {
		if e.Kind == "call" && e.Op == "register" {
			calls[e.Seq] = e
		}
	}
	for _, e := range evs {
		if e.Kind == "ret" && e.Op == "register" && e.Status == 0 {
			src := calls[e.Ref].Src
			if i := strings.LastIndex(src, "-"); i >= 0 {
				var g int
				fmt.Sscanf(src[i+1:], "%d", &g)
				if g > 0 && g < gen0 {
					return true
				}
			}
		}
	}
	return false
}
