package main

import (
	"bytes"
	"context"
	"encoding/json"
	"fmt"
	"io"
	"strings"
	"time"

	"go.amzn.com/verifharness/vh"
)

// C02 — only the in-flight request id is accepted, and only once.

func init() { register("C02", genC02) }

type c02Desc struct {
	History   string `json:"history"`   // none | ok | error | timeout | crash
	Placement string `json:"placement"` // idle | reserved | dispatched | responded | completed | validated-then-reset
	IDClass   string `json:"id_class"`  // stale | unknown | malformed | long | current-again | encoded-current
	Op        string `json:"op"`        // response | error
	First     string `json:"first"`     // for current-again: what the accepted first submission was
	Submitter string `json:"submitter"` // runtime | extension | second-connection
	NExt      int    `json:"extensions"`
}

func (d c02Desc) id() string {
	return fmt.Sprintf("C02/%s/%s/%s/%s/%s/%s/n%d", d.History, d.Placement, d.IDClass, d.Op, d.First, d.Submitter, d.NExt)
}

func genC02(tier string, seed int64) []Case {
	var cases []Case
	seen := map[string]bool{}
	add := func(d c02Desc) {
		if seen[d.id()] {
			return
		}
		seen[d.id()] = true
		cases = append(cases, Case{ID: d.id(), Class: d.Placement + "/" + d.IDClass, Desc: d, Timeout: 60 * time.Second, Run: func(c *Ctx) { runC02(c, d) }})
	}
	hists := []string{"ok", "error", "timeout", "crash"}
	places := []string{"idle", "reserved", "dispatched", "responded", "completed"}
	for hi, h := range hists {
		for _, p := range places {
			for _, idc := range []string{"stale", "unknown", "malformed", "long"} {
				for oi, op := range []string{"response", "error"} {
					sub := []string{"runtime", "extension", "second-connection"}[(hi+oi+len(p))%3]
					if tier != "thorough" && idc != "stale" && (hi+oi)%2 == 1 {
						continue
					}
					add(c02Desc{History: h, Placement: p, IDClass: idc, Op: op, Submitter: sub, NExt: 1})
				}
			}
		}
	}
	// a percent-encoded spelling of the in-flight id is NOT the in-flight id: refused, and without
	// any effect on the genuine submission that follows
	for hi, h := range []string{"none", "ok", "timeout", "crash"} {
		for oi, op := range []string{"response", "error"} {
			for _, p := range []string{"dispatched", "responded"} {
				for _, sub := range []string{"runtime", "second-connection", "extension"} {
					if tier != "thorough" && p == "responded" && sub != []string{"runtime", "second-connection", "extension"}[(hi+oi)%3] {
						continue
					}
					add(c02Desc{History: h, Placement: p, IDClass: "encoded-current", Op: op, Submitter: sub, NExt: 1})
				}
			}
		}
	}
	// second submissions for the current id
	for _, first := range []string{"response", "error"} {
		for _, op := range []string{"response", "error"} {
			for _, h := range []string{"none", "ok", "timeout"} {
				for _, sub := range []string{"runtime", "second-connection"} {
					add(c02Desc{History: h, Placement: "responded", IDClass: "current-again", Op: op, First: first, Submitter: sub, NExt: 1})
					add(c02Desc{History: h, Placement: "completed", IDClass: "current-again", Op: op, First: first, Submitter: sub, NExt: 0})
				}
			}
		}
	}
	// a valid submission paused after validation while its invocation is reset and the next one dispatched
	add(c02Desc{History: "none", Placement: "validated-then-reset", IDClass: "stale", Op: "response", Submitter: "runtime", NExt: 0})
	add(c02Desc{History: "ok", Placement: "validated-then-reset", IDClass: "stale", Op: "error", Submitter: "runtime", NExt: 0})
	// the platform has answered on the invocation's behalf (an extension crashed), the reset has not run yet:
	// the runtime's own submission for that id comes second and must be refused
	for _, op := range []string{"response", "error"} {
		for _, sub := range []string{"runtime", "second-connection"} {
			add(c02Desc{History: "none", Placement: "platform-answered", IDClass: "current-again", Op: op, First: "platform", Submitter: sub, NExt: 1})
			add(c02Desc{History: "ok", Placement: "platform-answered", IDClass: "current-again", Op: op, First: "platform", Submitter: sub, NExt: 2})
		}
	}
	// a response whose upload is slow: it starts while its invocation is in flight and ends around / after
	// that invocation's timeout and the dispatch of the next one
	for _, h := range []string{"none", "ok"} {
		for _, n := range []int{0, 1} {
			add(c02Desc{History: h, Placement: "slow-upload", IDClass: "stale", Op: "response", Submitter: "second-connection", NExt: n})
			add(c02Desc{History: h, Placement: "slow-upload", IDClass: "stale", Op: "error", Submitter: "second-connection", NExt: n})
		}
	}
	if tier == "thorough" {
		// the full product
		for _, h := range append([]string{"none"}, hists...) {
			for _, p := range places {
				for _, idc := range []string{"stale", "unknown", "malformed", "long", "encoded-current"} {
					if idc == "encoded-current" && p != "dispatched" && p != "responded" {
						continue
					}
					for _, op := range []string{"response", "error"} {
						for _, sub := range []string{"runtime", "extension", "second-connection"} {
							for _, n := range []int{0, 1, 2} {
								if sub == "extension" && n == 0 {
									continue
								}
								add(c02Desc{History: h, Placement: p, IDClass: idc, Op: op, Submitter: sub, NExt: n})
							}
						}
					}
				}
			}
		}
		for _, h := range []string{"none", "ok", "error"} {
			for _, n := range []int{0, 1, 2} {
				for _, op := range []string{"response", "error"} {
					add(c02Desc{History: h, Placement: "slow-upload", IDClass: "stale", Op: op, Submitter: "second-connection", NExt: n})
				}
			}
		}
		for _, h := range hists {
			for _, p := range places {
				for _, idc := range []string{"stale", "unknown"} {
					for _, sub := range []string{"runtime", "extension", "second-connection"} {
						for _, n := range []int{0, 2} {
							if sub == "extension" && n == 0 {
								continue
							}
							add(c02Desc{History: h, Placement: p, IDClass: idc, Op: "response", Submitter: sub, NExt: n})
						}
					}
				}
			}
		}
	}
	return cases
}

func runC02(c *Ctx, d c02Desc) {
	exts := []string{}
	for i := 0; i < d.NExt; i++ {
		exts = append(exts, fmt.Sprintf("ext%d", i))
	}
	timeout := int64(6000)
	if d.History == "timeout" {
		timeout = 700
	}
	if d.Placement == "validated-then-reset" || d.Placement == "slow-upload" {
		timeout = 350
	}
	w, err := NewWorld(vh.Config{TimeoutMs: timeout, Extensions: exts})
	if err != nil {
		c.Inconclusive("harness: " + err.Error())
		return
	}
	defer w.Close()
	hk := w.Hk
	// every generation is driven by the conductor
	pup := func(*vh.Proc) vh.ExecPlan { return vh.ExecPlan{Behave: vh.Puppet{ExitOnTerm: true}.Run} }
	w.RtPlan = func(gen int, p *vh.Proc) vh.ExecPlan { return pup(p) }
	w.ExtPlan = func(base string, gen int, p *vh.Proc) vh.ExecPlan {
		// extensions are autonomous (INVOKE subscribers) so that they never hold an invocation back
		return vh.ExecPlan{Behave: w.ExtLoop(ExtOpts{Events: []string{"INVOKE", "SHUTDOWN"}})}
	}
	w.E.Init()

	curGen := 0
	var rt, rt2 *vh.Party
	var rtNext *vh.Async
	attach := func() bool {
		p := w.E.WaitRuntime(curGen+1, 8*time.Second)
		if p == nil {
			return false
		}
		curGen = p.Gen
		rt = w.Party(p)
		rt2 = vh.NewParty("rt:"+p.Name+"#2", w.E.Addr, w.E.Log, p.Ctx)
		rtNext = vh.Go(func() *vh.Resp { return rt.Next() })
		return true
	}
	if !attach() {
		c.Inconclusive("runtime not started")
		return
	}
	var staleIDs []string
	submit := func(pt *vh.Party, op, id string, body []byte) *vh.Resp {
		if op == "error" {
			return pt.Error(id, body, map[string]string{"Lambda-Runtime-Function-Error-Type": "Function.Refused"})
		}
		return pt.Respond(id, body, nil)
	}
	// ---- history: one earlier invocation, ended in the given way ----
	runHistory := func() bool {
		if d.History == "none" {
			return true
		}
		inv := w.E.InvokeAsync([]byte("hist-event"), vh.InvokeOpts{})
		ev := rtNext.Wait(8 * time.Second)
		if ev == nil || ev.Status != 200 {
			return false
		}
		staleIDs = append(staleIDs, ev.ReqID())
		switch d.History {
		case "ok":
			rt.Respond(ev.ReqID(), []byte("hist-resp"), nil)
			rtNext = vh.Go(func() *vh.Resp { return rt.Next() })
			return inv.Wait(8*time.Second) && inv.Err == nil
		case "error":
			rt.Error(ev.ReqID(), []byte(`{"errorMessage":"h"}`), map[string]string{"Lambda-Runtime-Function-Error-Type": "Function.Hist"})
			rtNext = vh.Go(func() *vh.Resp { return rt.Next() })
			return inv.Wait(8*time.Second) && inv.Err == nil
		case "timeout":
			if !inv.Wait(12 * time.Second) {
				return false
			}
		case "crash":
			p := w.E.WaitRuntime(curGen, time.Second)
			p.RequestExit(vh.Exit{Code: 1})
			if !inv.Wait(12 * time.Second) {
				return false
			}
		}
		// the environment was reset: the next invocation starts a new generation; attach lazily
		return true
	}
	if !runHistory() {
		c.Inconclusive("history invocation did not behave as scripted")
		return
	}
	needAttach := d.History == "timeout" || d.History == "crash"

	makeID := func() string {
		switch d.IDClass {
		case "stale":
			if len(staleIDs) > 0 {
				return staleIDs[len(staleIDs)-1]
			}
			return "9f1c2d3e-0000-4000-8000-000000000001"
		case "unknown":
			return "0a1b2c3d-1111-4222-8333-444455556666"
		case "malformed":
			return "not-a-request-id!"
		case "long":
			return strings.Repeat("a", 4096)
		}
		return ""
	}
	var extParty *vh.Party
	// a client that outlived its generation (e.g. an orphaned child process still holding the API address)
	orphan := vh.NewParty("rt:orphan", w.E.Addr, w.E.Log, context.Background())
	defer orphan.Close()
	submitter := func() *vh.Party {
		if rt.Ctx.Err() != nil {
			return orphan
		}
		switch d.Submitter {
		case "second-connection":
			return rt2
		case "extension":
			if extParty == nil {
				if p := w.E.WaitExt("ext0", curGen, 3*time.Second); p != nil {
					extParty = vh.NewParty("ext:"+p.Name+"#rapi", w.E.Addr, w.E.Log, p.Ctx)
				}
			}
			if extParty != nil {
				return extParty
			}
		}
		return rt
	}
	refused := func(r *vh.Resp, where string) {
		if d.IDClass == "current-again" {
			c.Check(r.Status >= 400 && r.Status < 500, "second_submission_refused", fmt.Sprintf("C02/second-submission/%s/%d", where, r.Status), fmt.Sprintf("second submission (%s after %s) for the in-flight id answered %d", d.Op, d.First, r.Status), nil)
			return
		}
		c.Check(r.Status == 400 && r.Etype == "InvalidRequestID", "wrong_id_refused", fmt.Sprintf("C02/wrong-id/%s/%s/%d-%s", d.IDClass, where, r.Status, r.Etype), fmt.Sprintf("%s with a %s id at placement %s answered %d %s instead of 400 InvalidRequestID", d.Op, d.IDClass, where, r.Status, r.Etype), nil)
	}
	killsBefore := func() int {
		return len(vh.Filter(w.E.Log.Snapshot(), func(e vh.Event) bool { return e.Src == "sup" && (e.Kind == "kill" || e.Kind == "term") }))
	}

	if d.Placement == "validated-then-reset" {
		runC02Validated(c, w, d, rt, rtNext, submit)
		return
	}
	if d.Placement == "slow-upload" {
		runC02SlowUpload(c, w, d, rtNext)
		return
	}
	if d.Placement == "platform-answered" {
		hk.Hold("invoke.releaseFailed", 0)
		inv := w.E.InvokeAsync([]byte("event-B"), vh.InvokeOpts{})
		ev := rtNext.Wait(8 * time.Second)
		if ev == nil || ev.Status != 200 {
			c.Inconclusive("event not delivered")
			return
		}
		idB := ev.ReqID()
		// the extension dies in the middle of the invocation
		if p := w.E.WaitExt("ext0", curGen, 3*time.Second); p != nil {
			p.RequestExit(vh.Exit{Code: 7})
		}
		if !hk.WaitHeld("invoke.releaseFailed", 8*time.Second) {
			c.Inconclusive("pause point invoke.releaseFailed not reached")
			return
		}
		c.Clause("platform_answered_window_reached")
		pt := rt
		if d.Submitter == "second-connection" {
			pt = rt2
		}
		r := submit(pt, d.Op, idB, []byte("too-late-from-the-runtime"))
		c.Check(r.Err != nil || (r.Status >= 400 && r.Status < 500), "second_submission_refused", fmt.Sprintf("C02/after-platform-answer/%s/%d-%s", d.Op, r.Status, r.Etype), fmt.Sprintf("the runtime's %s for an invocation the platform had already answered (extension crash) got %d %s instead of a client error", d.Op, r.Status, r.Etype), nil)
		hk.Release("invoke.releaseFailed")
		if !inv.Wait(10 * time.Second) {
			c.Check(false, "in_flight_completes", "C02/in-flight-disturbed/platform-answered", "the failed invocation never returned", nil)
			return
		}
		var fe funcErr
		okBody := json.Unmarshal(inv.W.Body(), &fe) == nil && fe.ErrorType == "Extension.Crash" && inv.W.NWrites() == 1
		c.Check(okBody, "caller_gets_first_only", "C02/caller-body/platform-answered", "the caller did not receive exactly the platform's answer", trunc(inv.W.Body()))
		// the next invocation is served by a new generation
		inv2 := w.E.InvokeAsync([]byte("event-C"), vh.InvokeOpts{})
		if attach() {
			if ev2 := rtNext.Wait(8 * time.Second); ev2 != nil && ev2.Status == 200 {
				rt.Respond(ev2.ReqID(), []byte("resp-C"), nil)
				vh.Go(func() *vh.Resp { return rt.Next() })
			}
		}
		c.Check(inv2.Wait(10*time.Second) && inv2.Err == nil && bytes.Equal(inv2.W.Body(), []byte("resp-C")), "later_invocation_ok", "C02/later-invocation/platform-answered", "the following invocation did not succeed with its own body", vh.ErrName(inv2.Err))
		c.SetHooks(hk.Arrived())
		c.SetTrace(d.id(), true)
		if c.WantSample || c.Violated() {
			c.SetSample(sampleLog(w, 150))
		}
		return
	}

	// ---- placement ----
	if d.Placement == "idle" {
		if needAttach {
			// after a reset nothing is running until the next invocation: the refused submission comes from the old runtime's connection
		}
		r := submit(submitter(), d.Op, makeID(), []byte("intruder"))
		if r.Err == nil {
			refused(r, "idle")
		} else {
			c.Counter("submitter_gone", 1)
		}
	}
	if d.Placement == "reserved" {
		hk.Hold("invoke.reserved", 0)
	}
	k0 := killsBefore()
	inv := w.E.InvokeAsync([]byte("event-B"), vh.InvokeOpts{})
	if d.Placement == "reserved" {
		if !hk.WaitHeld("invoke.reserved", 5*time.Second) {
			c.Inconclusive("hook invoke.reserved not reached")
			return
		}
		r := submit(submitter(), d.Op, makeID(), []byte("intruder"))
		if r.Err == nil {
			refused(r, "reserved")
		} else {
			c.Counter("submitter_gone", 1)
		}
		hk.Release("invoke.reserved")
	}
	if needAttach {
		if !attach() {
			c.Check(false, "next_generation_starts", "C02/no-new-generation", "no new runtime was started for the invocation after a reset", nil)
			return
		}
		extParty = nil
	}
	ev := rtNext.Wait(8 * time.Second)
	if !c.Check(ev != nil && ev.Status == 200 && bytes.Equal(ev.Body, []byte("event-B")), "in_flight_dispatched", "C02/dispatch-disturbed/"+d.Placement, "the in-flight invocation was not dispatched normally after a refused submission", nil) {
		c.SetSample(sampleLog(w, 150))
		return
	}
	idB := ev.ReqID()
	c.Check(!contains(staleIDs, idB), "fresh_id", "C02/id-reused", "request id reused", idB)
	encoded := func() string {
		// spellings that a sloppy comparison could take for the in-flight id: percent-encoding of a
		// dash / the first / the last character, another letter case, an encoded trailing blank
		up := strings.ToUpper(idB)
		switch (len(d.History) + len(d.Op) + len(d.Submitter)) % 6 {
		case 0:
			return strings.Replace(idB, "-", "%2D", 1)
		case 1:
			return fmt.Sprintf("%%%02X", idB[0]) + idB[1:]
		case 2:
			if up != idB {
				return up
			}
			return strings.Replace(idB, "-", "%2d", 1)
		case 3:
			// one letter in the other case
			for i := 0; i < len(idB); i++ {
				if idB[i] >= 'a' && idB[i] <= 'f' {
					return idB[:i] + strings.ToUpper(idB[i:i+1]) + idB[i+1:]
				}
			}
			return idB + "%20"
		case 4:
			return idB + "%20"
		}
		return idB[:len(idB)-1] + fmt.Sprintf("%%%02x", idB[len(idB)-1])
	}
	if d.Placement == "dispatched" {
		id := makeID()
		if d.IDClass == "encoded-current" {
			id = encoded()
		}
		refused(submit(submitter(), d.Op, id, []byte("intruder")), "dispatched")
	}
	firstBody := []byte("resp-B-first")
	var first *vh.Resp
	if d.First == "error" {
		first = rt.Error(idB, firstBody, map[string]string{"Lambda-Runtime-Function-Error-Type": "Function.First"})
	} else {
		first = rt.Respond(idB, firstBody, nil)
	}
	c.Check(first.Status == 202, "current_id_accepted_once", fmt.Sprintf("C02/current-refused/%d-%s", first.Status, first.Etype), "the first submission for the in-flight id was not accepted", d.Placement)
	if d.Placement == "responded" {
		id := makeID()
		if d.IDClass == "current-again" {
			id = idB
		}
		if d.IDClass == "encoded-current" {
			id = encoded()
		}
		refused(submit(submitter(), d.Op, id, []byte("intruder-second")), "responded")
	}
	rtNext = vh.Go(func() *vh.Resp { return rt.Next() })
	if !c.Check(inv.Wait(8*time.Second) && inv.Err == nil, "in_flight_completes", "C02/in-flight-disturbed/"+d.Placement, "the in-flight invocation did not complete normally: "+vh.ErrName(inv.Err), nil) {
		c.SetSample(sampleLog(w, 150))
		return
	}
	c.Check(bytes.Equal(inv.W.Body(), firstBody) && inv.W.NWrites() == 1, "caller_gets_first_only", "C02/caller-body/"+d.Placement, "the caller did not receive exactly the first accepted body", trunc(inv.W.Body()))
	if d.Placement == "completed" {
		id := makeID()
		if d.IDClass == "current-again" {
			id = idB // now a stale id
		}
		vh.Settle(rtNext, func() bool { return w.E.RuntimeState() == "Ready" }, 2*time.Second)
		r := submit(rt2, d.Op, id, []byte("intruder-late"))
		if d.IDClass == "current-again" {
			c.Check(r.Status >= 400 && r.Status < 500, "second_submission_refused", fmt.Sprintf("C02/late-second-submission/%d", r.Status), "a submission for a completed invocation's id was accepted", nil)
		} else {
			refused(r, "completed")
		}
	}
	// ---- no effect on later invocations, on the runtime's protocol state, on the processes ----
	inv2 := w.E.InvokeAsync([]byte("event-C"), vh.InvokeOpts{})
	ev2 := rtNext.Wait(8 * time.Second)
	if c.Check(ev2 != nil && ev2.Status == 200 && bytes.Equal(ev2.Body, []byte("event-C")) && ev2.ReqID() != idB, "later_invocation_dispatched", "C02/later-dispatch/"+d.Placement, "the following invocation was not dispatched normally", nil) {
		r := rt.Respond(ev2.ReqID(), []byte("resp-C"), nil)
		c.Check(r.Status == 202, "later_response_accepted", fmt.Sprintf("C02/later-response/%d-%s", r.Status, r.Etype), "the runtime's legal response to the following invocation was refused (protocol state disturbed)", nil)
		vh.Go(func() *vh.Resp { return rt.Next() })
		c.Check(inv2.Wait(8*time.Second) && inv2.Err == nil && bytes.Equal(inv2.W.Body(), []byte("resp-C")), "later_invocation_ok", "C02/later-invocation/"+d.Placement, "the following invocation did not succeed with its own body", vh.ErrName(inv2.Err))
	}
	c.Check(killsBefore() == k0 && w.E.WaitRuntime(curGen+1, 0) == nil, "no_process_churn", "C02/process-churn/"+d.Placement, "a refused submission was followed by terminate/kill/exec of processes", nil)
	c.SetHooks(hk.Arrived())
	c.SetTrace(d.id()+NormTrace(w.E.Log.Snapshot(), func(e vh.Event) bool { return strings.HasPrefix(e.Src, "rt:") || strings.HasPrefix(e.Src, "caller") }), true)
	if c.WantSample || c.Violated() {
		c.SetSample(sampleLog(w, 150))
	}
}

// runC02Validated: a VALID submission is paused after the id check; its invocation is ended by the timeout reset and the next
// invocation is dispatched to a new runtime; then the paused handler resumes.
func runC02Validated(c *Ctx, w *World, d c02Desc, rt *vh.Party, rtNext *vh.Async, submit func(*vh.Party, string, string, []byte) *vh.Resp) {
	hk := w.Hk
	invA := w.E.InvokeAsync([]byte("event-A"), vh.InvokeOpts{})
	ev := rtNext.Wait(8 * time.Second)
	if ev == nil || ev.Status != 200 {
		c.Inconclusive("event A not delivered")
		return
	}
	idA := ev.ReqID()
	hk.Hold("rapi.requestIDValidated", 0)
	late := vh.Go(func() *vh.Resp { return submit(rt, d.Op, idA, []byte("late-valid-A")) })
	if !hk.WaitHeld("rapi.requestIDValidated", 5*time.Second) {
		c.Inconclusive("hook rapi.requestIDValidated not reached")
		return
	}
	// A times out, the environment is reset
	if !invA.Wait(10 * time.Second) {
		c.Check(false, "timeout_answers", "C02/validated/hang", "invocation A did not time out while its response was paused", nil)
		return
	}
	invB := w.E.InvokeAsync([]byte("event-B"), vh.InvokeOpts{})
	p2 := w.E.WaitRuntime(2, 8*time.Second)
	if p2 == nil {
		c.Inconclusive("no new generation")
		return
	}
	rtB := w.Party(p2)
	evB := rtB.Next()
	if !c.Check(evB.Status == 200 && bytes.Equal(evB.Body, []byte("event-B")), "next_dispatched", "C02/validated/b-not-dispatched", "invocation B was not dispatched to the new runtime", nil) {
		return
	}
	c.Clause("validated_window_reached")
	// now the stale handler resumes
	hk.Release("rapi.requestIDValidated")
	r := late.Wait(5 * time.Second)
	// the sender was killed by the reset meanwhile: it either sees a 4xx or nothing at all, never an acceptance
	c.Check(r != nil && (r.Status == 0 || (r.Status >= 400 && r.Status < 500)), "stale_validated_refused", "C02/validated/stale-accepted", "the paused submission for the reset invocation was accepted", nil)
	time.Sleep(2 * time.Millisecond)
	rb := rtB.Respond(evB.ReqID(), []byte("resp-B"), nil)
	c.Check(rb.Status == 202, "new_generation_state_intact", fmt.Sprintf("C02/validated/new-runtime-state-disturbed/%d-%s", rb.Status, rb.Etype),
		fmt.Sprintf("a submission for the previous (reset) invocation, resumed late, drove the NEW runtime's state machine: its own response was answered %d %s", rb.Status, rb.Etype), nil)
	vh.Go(func() *vh.Resp { return rtB.Next() })
	ok := invB.Wait(6*time.Second) && invB.Err == nil && bytes.Equal(invB.W.Body(), []byte("resp-B"))
	c.Check(ok, "next_invocation_unaffected", "C02/validated/b-fails", "invocation B did not complete with its own response: "+vh.ErrName(invB.Err), trunc(invB.W.Body()))
	c.SetHooks(hk.Arrived())
	c.SetTrace(d.id(), true)
	if c.WantSample || c.Violated() {
		c.SetSample(sampleLog(w, 150))
	}
}

// runC02SlowUpload: the response to invocation A is uploaded slowly by a client that outlives A's
// generation (it only needs the API address); A times out, B is invoked. Whatever the upload's fate,
// B's caller must receive exactly B's own answer and B's runtime must be able to respond.
func runC02SlowUpload(c *Ctx, w *World, d c02Desc, rtNext *vh.Async) {
	invA := w.E.InvokeAsync([]byte("event-A"), vh.InvokeOpts{})
	ev := rtNext.Wait(8 * time.Second)
	if ev == nil || ev.Status != 200 {
		c.Inconclusive("event A not delivered")
		return
	}
	idA := ev.ReqID()
	up := vh.NewParty("rt:uploader", w.E.Addr, w.E.Log, context.Background())
	defer up.Close()
	pr, pw := io.Pipe()
	late := vh.Go(func() *vh.Resp {
		if d.Op == "error" {
			return up.ErrorStream(idA, pr, []byte("answer-A-head|answer-A-tail"))
		}
		return up.RespondStream(idA, pr, []byte("answer-A-head|answer-A-tail"))
	})
	headDone := make(chan struct{})
	go func() {
		pw.Write([]byte("answer-A-head|")) // returns once the transport has taken the bytes
		close(headDone)
	}()
	select {
	case <-headDone:
	case <-time.After(5 * time.Second):
		c.Inconclusive("upload did not start")
		pw.Close()
		return
	}
	// A's timeout (350 ms) fires while the upload is open. Whether A can be answered before the upload
	// ends is the implementation's business: wait for it only for a bounded time.
	aDone := invA.Wait(1500 * time.Millisecond)
	// B is invoked only once A has been answered (a caller arriving while A is still in flight is
	// legitimately refused, C10); if the open upload keeps A in flight, B follows after the upload
	var invB *vh.Invocation
	if aDone {
		invB = w.E.InvokeAsync([]byte("event-B"), vh.InvokeOpts{})
	}
	var rtB *vh.Party
	var evB *vh.Resp
	var evBAsync *vh.Async
	getB := func(wait time.Duration) bool {
		if rtB == nil {
			if p2 := w.E.WaitRuntime(2, wait); p2 != nil {
				rtB = w.Party(p2)
				evBAsync = vh.Go(func() *vh.Resp { return rtB.Next() })
			}
		}
		if evBAsync != nil && evB == nil {
			if r := evBAsync.Wait(wait); r != nil && r.Status == 200 {
				evB = r
			}
		}
		return evB != nil
	}
	dispatchedDuringUpload := false
	if aDone {
		dispatchedDuringUpload = getB(1500 * time.Millisecond)
	}
	if dispatchedDuringUpload {
		c.Clause("upload_open_across_dispatch")
		time.Sleep(2 * time.Millisecond)
	} else {
		c.Clause("upload_blocks_teardown")
	}
	// the upload ends now
	pw.Write([]byte("answer-A-tail"))
	pw.Close()
	r := late.Wait(8 * time.Second)
	if dispatchedDuringUpload {
		c.Check(r != nil && (r.Status == 0 || (r.Status >= 400 && r.Status < 500)), "stale_upload_refused", fmt.Sprintf("C02/slow-upload/stale-accepted/%d", statusOrZero(r)), "a response for the timed-out invocation whose upload ended after the next invocation was dispatched was accepted", nil)
	}
	if !invA.Wait(10 * time.Second) {
		c.Check(false, "timeout_answers", "C02/slow-upload/a-hangs", "invocation A never returned", nil)
		return
	}
	if invB == nil {
		invB = w.E.InvokeAsync([]byte("event-B"), vh.InvokeOpts{})
	}
	outA := vh.ErrName(invA.Err)
	c.Check(outA == "timeout" || (outA == "ok" && bytes.Equal(invA.W.Body(), []byte("answer-A-head|answer-A-tail"))), "a_outcome", "C02/slow-upload/a-outcome/"+outA, "invocation A ended with neither the timeout outcome nor its own complete answer", trunc(invA.W.Body()))
	getB(8 * time.Second)
	if !c.Check(evB != nil && bytes.Equal(evB.Body, []byte("event-B")), "next_dispatched", "C02/slow-upload/b-not-dispatched", "invocation B was not dispatched", nil) {
		c.SetSample(sampleLog(w, 150))
		return
	}
	rb := rtB.Respond(evB.ReqID(), []byte("answer-B"), nil)
	c.Check(rb.Status == 202, "new_generation_state_intact", fmt.Sprintf("C02/slow-upload/b-response-refused/%d-%s", rb.Status, rb.Etype), fmt.Sprintf("B's own response was answered %d %s after a slow upload for A", rb.Status, rb.Etype), nil)
	vh.Go(func() *vh.Resp { return rtB.Next() })
	ok := invB.Wait(6*time.Second) && invB.Err == nil && bytes.Equal(invB.W.Body(), []byte("answer-B"))
	c.Check(ok, "next_invocation_unaffected", "C02/slow-upload/b-wrong-answer", "invocation B did not complete with exactly its own response: "+vh.ErrName(invB.Err), trunc(invB.W.Body()))
	c.SetHooks(w.Hk.Arrived())
	c.SetTrace(d.id()+fmt.Sprint(dispatchedDuringUpload), true)
	if c.WantSample || c.Violated() {
		c.SetSample(sampleLog(w, 170))
	}
}

func statusOrZero(r *vh.Resp) int {
	if r == nil {
		return -1
	}
	return r.Status
}
