package main

import (
	"context"
	"fmt"
	"os"
	"path/filepath"
	"strconv"
	"strings"
	"sync"
	"time"

	"go.amzn.com/lambda/supervisor"
	supvmodel "go.amzn.com/lambda/supervisor/model"
)

// C19 — local supervisor: one truthful exit event per process, kill means gone.
// Real /bin/sh children, no emulator.

func init() { register("C19", genC19) }

type c19Desc struct {
	N    int    `json:"processes"`
	Salt string `json:"salt"`
	Kind string `json:"kind"` // mix | contract | burst
}

func genC19(tier string, seed int64) []Case {
	var cases []Case
	add := func(d c19Desc) {
		cases = append(cases, Case{ID: fmt.Sprintf("C19/%s/%s/n%d", d.Kind, d.Salt, d.N), Class: d.Kind, Desc: d, Timeout: 240 * time.Second, Run: func(c *Ctx) { runC19(c, d) }})
	}
	add(c19Desc{Kind: "contract", N: 1, Salt: "fixed"})
	add(c19Desc{Kind: "burst", N: 40, Salt: "fixed"})
	if tier == "thorough" {
		add(c19Desc{Kind: "burst", N: 200, Salt: "large"})
	}
	nb := 12
	sizes := []int{1, 2, 5, 10, 20, 40}
	if tier == "thorough" {
		nb = 400
	}
	for i := 0; i < nb; i++ {
		add(c19Desc{Kind: "mix", N: sizes[i%len(sizes)], Salt: fmt.Sprintf("%d-%d", seed, i)})
	}
	return cases
}

type lockedBuf struct {
	mu sync.Mutex
	n  int
}

func (b *lockedBuf) Write(p []byte) (int, error) {
	b.mu.Lock()
	b.n += len(p)
	b.mu.Unlock()
	return len(p), nil
}

type c19Proc struct {
	d1, d2   time.Duration
	name     string
	kind     string // exit0 exit3 sigsegv sigkill trapterm ignoreterm forks termchild quick
	script   string
	marker   string
	actions  []string // natural | terminate | kill | killkill | killterm
	wantCode []int32  // acceptable exit codes
	wantSig  []int32  // acceptable signals
	mustEnd  bool     // exits by itself
}

func procState(pid int) string {
	b, err := os.ReadFile(fmt.Sprintf("/proc/%d/stat", pid))
	if err != nil {
		return "gone"
	}
	s := string(b)
	i := strings.LastIndex(s, ")")
	if i < 0 || i+2 >= len(s) {
		return "?"
	}
	return string(s[i+2])
}

func readPid(path string) int {
	for i := 0; i < 400; i++ {
		b, err := os.ReadFile(path)
		if err == nil {
			if n, err := strconv.Atoi(strings.TrimSpace(string(b))); err == nil {
				return n
			}
		}
		time.Sleep(5 * time.Millisecond)
	}
	return 0
}

func runC19(c *Ctx, d c19Desc) {
	dir, err := os.MkdirTemp(os.Getenv("VERIF_TMP"), "c19-")
	if err != nil {
		c.Inconclusive("harness: " + err.Error())
		return
	}
	defer os.RemoveAll(dir)
	sup := supervisor.NewLocalSupervisor()
	evch, _ := sup.Events(context.Background(), &supvmodel.EventsRequest{Domain: "runtime"})
	var mu sync.Mutex
	events := map[string][]supvmodel.Event{}
	readGate := make(chan struct{})
	if d.Kind != "burst" {
		close(readGate)
	}
	go func() {
		<-readGate // burst: nobody reads the events while the processes exit
		for e := range evch {
			if t := e.Event.ProcessTerminated(); t != nil {
				mu.Lock()
				events[*t.Name] = append(events[*t.Name], e)
				mu.Unlock()
			}
		}
	}()
	ctx := context.Background()
	r := rng(c.Seed, "c19"+d.Salt)

	if d.Kind == "burst" {
		// many processes terminate while the consumer of the event stream is busy elsewhere: when it
		// comes back every one of them must still have its event
		want := map[string]int32{}
		for i := 0; i < d.N; i++ {
			name := fmt.Sprintf("b%d", i)
			code := int32(i % 7)
			want[name] = code
			// every other process is started on behalf of a request whose context ends when Exec has returned
			// (the request context is not the lifetime of the process: its event is owed all the same)
			ectx, ecancel := context.WithCancel(ctx)
			err := sup.Exec(ectx, &supvmodel.ExecRequest{Domain: "runtime", Name: name, Path: "/bin/sh", Args: []string{"-c", fmt.Sprintf("sleep 0.0%d; exit %d", i%5, code)}})
			if i%2 == 1 {
				ecancel()
			} else {
				defer ecancel()
			}
			if err != nil {
				c.Inconclusive("exec failed: " + err.Error())
				close(readGate)
				return
			}
		}
		time.Sleep(700 * time.Millisecond) // all of them have exited by now
		close(readGate)
		dl := time.Now().Add(10 * time.Second)
		for time.Now().Before(dl) {
			mu.Lock()
			n := len(events)
			mu.Unlock()
			if n >= d.N {
				break
			}
			time.Sleep(5 * time.Millisecond)
		}
		time.Sleep(50 * time.Millisecond)
		mu.Lock()
		missing, wrong := 0, 0
		for name, code := range want {
			evs := events[name]
			if len(evs) != 1 {
				missing++
				continue
			}
			if evs[0].Event.ExitStatus == nil || *evs[0].Event.ExitStatus != code {
				wrong++
			}
		}
		mu.Unlock()
		c.Check(missing == 0, "exactly_one_event", fmt.Sprintf("C19/burst/events-missing-or-duplicated"), fmt.Sprintf("%d of %d processes that exited while nobody was reading the event stream do not have exactly one termination event", missing, d.N), nil)
		c.Check(wrong == 0, "exit_status_truthful", "C19/burst/wrong-status", fmt.Sprintf("%d events of the burst carry a wrong exit status", wrong), nil)
		c.Counter("processes", d.N)
		c.SetTrace("burst"+d.Salt, true)
		return
	}
	if d.Kind == "contract" {
		// unknown names
		c.Check(sup.Kill(ctx, &supvmodel.KillRequest{Domain: "runtime", Name: "nobody", Deadline: time.Now().Add(time.Second)}) != nil, "kill_unknown_fails", "C19/kill-unknown-ok", "Kill of an unknown process name succeeded", nil)
		c.Check(sup.Terminate(ctx, &supvmodel.TerminateRequest{Domain: "runtime", Name: "nobody"}) != nil, "terminate_unknown_fails", "C19/terminate-unknown-ok", "Terminate of an unknown process name succeeded", nil)
		// exec failure produces no event
		err := sup.Exec(ctx, &supvmodel.ExecRequest{Domain: "runtime", Name: "noexec", Path: filepath.Join(dir, "does-not-exist")})
		c.Check(err != nil, "exec_failure_reported", "C19/exec-failure-silent", "Exec of a missing binary returned no error", nil)
		// past deadline on a live process
		m := filepath.Join(dir, "live")
		sup.Exec(ctx, &supvmodel.ExecRequest{Domain: "runtime", Name: "live", Path: "/bin/sh", Args: []string{"-c", "echo $$ > " + m + ".pid; while :; do sleep 0.05; done"}})
		pid := readPid(m + ".pid")
		c.Check(sup.Kill(ctx, &supvmodel.KillRequest{Domain: "runtime", Name: "live", Deadline: time.Now().Add(-time.Second)}) != nil, "kill_past_deadline_fails", "C19/kill-past-deadline-ok", "Kill with a deadline in the past succeeded on a live process", nil)
		c.Check(procState(pid) != "gone" && procState(pid) != "Z", "past_deadline_does_not_kill", "C19/past-deadline-killed", "process was killed although the Kill request was refused", nil)
		// tiny deadline: nil only if really gone
		err = sup.Kill(ctx, &supvmodel.KillRequest{Domain: "runtime", Name: "live", Deadline: time.Now().Add(50 * time.Microsecond)})
		if err == nil {
			st := procState(pid)
			c.Check(st == "gone" || st == "Z", "kill_nil_means_gone", "C19/kill-nil-but-alive", "Kill returned success while the process was still running", st)
		} else {
			c.Clause("kill_tiny_deadline_error")
		}
		sup.Kill(ctx, &supvmodel.KillRequest{Domain: "runtime", Name: "live", Deadline: time.Now().Add(5 * time.Second)})
		// kill after exit => nil
		sup.Exec(ctx, &supvmodel.ExecRequest{Domain: "runtime", Name: "done", Path: "/bin/sh", Args: []string{"-c", "exit 4"}})
		time.Sleep(300 * time.Millisecond)
		c.Check(sup.Kill(ctx, &supvmodel.KillRequest{Domain: "runtime", Name: "done", Deadline: time.Now().Add(time.Second)}) == nil, "kill_exited_ok", "C19/kill-exited-fails", "Kill of an already exited process failed", nil)
		// exit status 137 / 143 are exit statuses, not signals
		for _, n := range []int{130, 137, 143} {
			sup.Exec(ctx, &supvmodel.ExecRequest{Domain: "runtime", Name: fmt.Sprintf("exit%d", n), Path: "/bin/sh", Args: []string{"-c", fmt.Sprintf("exit %d", n)}})
		}
		// a Kill that stays pending (a descendant outside the process group keeps the output pipe open, so the
		// termination is collected late) must not hold up operations on OTHER processes
		sup.Exec(ctx, &supvmodel.ExecRequest{Domain: "runtime", Name: "slowkill", Path: "/bin/sh", Args: []string{"-c", "setsid sleep 1.2 & while :; do sleep 0.05; done"}, StdoutWriter: &lockedBuf{}, StderrWriter: &lockedBuf{}})
		mb := filepath.Join(dir, "other")
		sup.Exec(ctx, &supvmodel.ExecRequest{Domain: "runtime", Name: "otherB", Path: "/bin/sh", Args: []string{"-c", "echo $$ > " + mb + ".b; while :; do sleep 0.05; done"}})
		sup.Exec(ctx, &supvmodel.ExecRequest{Domain: "runtime", Name: "otherC", Path: "/bin/sh", Args: []string{"-c", "echo $$ > " + mb + ".c; while :; do sleep 0.05; done"}})
		readPid(mb + ".b")
		readPid(mb + ".c")
		time.Sleep(50 * time.Millisecond)
		killDone := make(chan error, 1)
		tk := time.Now()
		go func() {
			killDone <- sup.Kill(ctx, &supvmodel.KillRequest{Domain: "runtime", Name: "slowkill", Deadline: time.Now().Add(4 * time.Second)})
		}()
		time.Sleep(150 * time.Millisecond) // the kill of "slowkill" is pending now (its pipe stays open for ~1.2 s)
		pendingKill := true
		select {
		case <-killDone:
			pendingKill = false
		default:
		}
		t1 := time.Now()
		errT := sup.Terminate(ctx, &supvmodel.TerminateRequest{Domain: "runtime", Name: "otherB"})
		dT := time.Since(t1)
		t2 := time.Now()
		errK := sup.Kill(ctx, &supvmodel.KillRequest{Domain: "runtime", Name: "otherC", Deadline: time.Now().Add(800 * time.Millisecond)})
		dK := time.Since(t2)
		if pendingKill {
			c.Check(errT == nil && dT < 500*time.Millisecond, "terminate_does_not_wait", "C19/terminate-blocked-by-other-kill", fmt.Sprintf("Terminate of another process took %.0f ms (err %v) while a Kill was pending", float64(dT)/1e6, errT), nil)
			c.Check(errK == nil && dK < 700*time.Millisecond, "kill_independent_of_other_kill", "C19/kill-blocked-by-other-kill", fmt.Sprintf("Kill of another process took %.0f ms (err %v) while a Kill was pending", float64(dK)/1e6, errK), nil)
		} else {
			c.Counter("slow_kill_was_not_slow", 1)
		}
		<-killDone
		_ = tk
		sup.Kill(ctx, &supvmodel.KillRequest{Domain: "runtime", Name: "otherB", Deadline: time.Now().Add(2 * time.Second)})
		// a leader that exits 0 while a forked child keeps its output pipe open for a while
		sup.Exec(ctx, &supvmodel.ExecRequest{Domain: "runtime", Name: "orphan", Path: "/bin/sh", Args: []string{"-c", "sleep 0.9 & echo hi; exit 0"}, StdoutWriter: &lockedBuf{}, StderrWriter: &lockedBuf{}})
		for i := 0; i < 1500; i++ {
			mu.Lock()
			n := len(events["orphan"])
			mu.Unlock()
			if n > 0 {
				break
			}
			time.Sleep(4 * time.Millisecond)
		}
		time.Sleep(100 * time.Millisecond)
		mu.Lock()
		if c.Check(len(events["orphan"]) == 1, "exactly_one_event", fmt.Sprintf("C19/event-count/%d/orphan", len(events["orphan"])), "no single termination event for a leader whose child outlives it", nil) {
			e := events["orphan"][0].Event
			c.Check(e.ExitStatus != nil && *e.ExitStatus == 0 && e.Signo == nil, "exit_status_truthful", "C19/exit-status/orphan", "leader exited 0 (child still holding the output pipe) but another status was reported", fmt.Sprint(e.ExitStatus, e.Signo))
		}
		for _, n := range []int32{130, 137, 143} {
			evs := events[fmt.Sprintf("exit%d", n)]
			ok := len(evs) == 1 && evs[0].Event.ExitStatus != nil && *evs[0].Event.ExitStatus == n && evs[0].Event.Signo == nil
			c.Check(ok, "exit_status_truthful", fmt.Sprintf("C19/exit-status/%d", n), fmt.Sprintf("'exit %d' was not reported as exit status %d", n, n), nil)
		}
		c.Check(len(events["noexec"]) == 0, "no_event_without_process", "C19/event-for-failed-exec", "termination event for a process that never started", nil)
		c.Check(len(events["done"]) == 1 && events["done"][0].Event.ExitStatus != nil && *events["done"][0].Event.ExitStatus == 4, "exit_status_truthful", "C19/exit-status", "exit status of 'exit 4' not reported truthfully", nil)
		c.Check(len(events["live"]) == 1 && events["live"][0].Event.Signo != nil && *events["live"][0].Event.Signo == 9, "signal_truthful", "C19/kill-signal", "SIGKILL not reported as signal 9", nil)
		mu.Unlock()
		c.SetTrace("contract", true)
		return
	}

	kinds := []string{"exit0", "exit3", "sigsegv", "sigkill", "trapterm", "ignoreterm", "forks", "termchild", "quick", "orphan0", "orphan3", "exit130", "exit137", "exit143", "exit255"}
	var procs []*c19Proc
	for i := 0; i < d.N; i++ {
		k := kinds[r.Intn(len(kinds))]
		p := &c19Proc{name: fmt.Sprintf("p%d-%s", i, k), kind: k, marker: filepath.Join(dir, fmt.Sprintf("m%d", i))}
		pre := "echo $$ > " + p.marker + ".pid; "
		delay := fmt.Sprintf("sleep 0.%02d; ", r.Intn(8))
		switch k {
		case "exit0":
			p.script, p.wantCode, p.mustEnd = pre+delay+"exit 0", []int32{0}, true
		case "exit3":
			p.script, p.wantCode, p.mustEnd = pre+delay+"exit 3", []int32{3}, true
		case "sigsegv":
			p.script, p.wantSig, p.mustEnd = pre+delay+"kill -SEGV $$", []int32{11}, true
		case "sigkill":
			p.script, p.wantSig, p.mustEnd = pre+delay+"kill -KILL $$", []int32{9}, true
		case "quick":
			p.script, p.wantCode, p.mustEnd = "exit 5", []int32{5}, true
		case "exit130", "exit137", "exit143", "exit255":
			// exit statuses that a shell would print for a signal death are still exit statuses
			n, _ := strconv.Atoi(strings.TrimPrefix(k, "exit"))
			p.script, p.wantCode, p.mustEnd = pre+delay+fmt.Sprintf("exit %d", n), []int32{int32(n)}, true
		case "orphan0", "orphan3":
			// the leader exits while a forked child still holds its stdout/stderr: the status
			// reported must be the leader's own, however long the output pipe stays open
			code := map[string]string{"orphan0": "0", "orphan3": "3"}[k]
			p.script, p.mustEnd = "sleep 0.9 & "+pre+delay+"echo bye; exit "+code, true
			p.wantCode = []int32{map[string]int32{"orphan0": 0, "orphan3": 3}[k]}
		case "trapterm":
			p.script = "trap 'exit 7' TERM; " + pre + "while :; do sleep 0.02; done"
		case "ignoreterm":
			p.script = "trap '' TERM; " + pre + "while :; do sleep 0.02; done"
		case "forks":
			p.script = "sleep 30 & echo $! > " + p.marker + ".c1; sleep 30 & echo $! > " + p.marker + ".c2; " + pre + "wait"
		case "termchild":
			p.script = "(trap 'echo got > " + p.marker + ".term; exit 0' TERM; while :; do sleep 0.02; done) & echo $! > " + p.marker + ".c1; " + pre + "wait"
		}
		// actions
		if p.mustEnd {
			p.actions = [][]string{{"natural"}, {"natural"}, {"kill"}, {"terminate"}, {"killkill"}, {"killterm"}}[r.Intn(6)]
			if strings.HasPrefix(k, "orphan") {
				p.actions = []string{"natural"}
			}
		} else {
			p.actions = [][]string{{"kill"}, {"terminate", "kill"}, {"killkill"}, {"killterm"}, {"terminate", "terminate", "kill"}}[r.Intn(5)]
		}
		p.d1, p.d2 = time.Duration(r.Intn(5))*time.Millisecond, time.Duration(r.Intn(5))*time.Millisecond
		procs = append(procs, p)
	}
	// start all
	for _, p := range procs {
		// output goes to in-memory writers, as when the emulator launches runtimes and extensions
		// (every third process keeps the supervisor's default of no writers)
		req := &supvmodel.ExecRequest{Domain: "runtime", Name: p.name, Path: "/bin/sh", Args: []string{"-c", p.script}}
		if len(p.name)%3 != 0 || strings.HasPrefix(p.kind, "orphan") {
			req.StdoutWriter, req.StderrWriter = &lockedBuf{}, &lockedBuf{}
		}
		if err := sup.Exec(ctx, req); err != nil {
			c.Inconclusive("exec failed: " + err.Error())
			return
		}
	}
	var wg sync.WaitGroup
	for _, p := range procs {
		wg.Add(1)
		go func(p *c19Proc) {
			defer wg.Done()
			pid := 0
			if p.kind != "quick" {
				pid = readPid(p.marker + ".pid")
			}
			var kids []int
			if p.kind == "forks" || p.kind == "termchild" {
				kids = append(kids, readPid(p.marker+".c1"))
				if p.kind == "forks" {
					kids = append(kids, readPid(p.marker+".c2"))
				}
			}
			time.Sleep(p.d1)
			checkGone := func(label string) {
				if pid != 0 {
					st := procState(pid)
					c.Check(st == "gone" || st == "Z", "kill_nil_means_gone", "C19/kill-nil-but-alive/"+p.kind, "Kill returned success while the process was still running ("+label+")", st)
				}
				// the whole group
				for _, k := range kids {
					if k == 0 {
						continue
					}
					// group members are signalled synchronously but die asynchronously: allow a moment
					ok := false
					for i := 0; i < 200; i++ {
						if st := procState(k); st == "gone" || st == "Z" {
							ok = true
							break
						}
						time.Sleep(2 * time.Millisecond)
					}
					c.Check(ok, "kill_takes_group", "C19/group-member-survives/"+p.kind, "a forked child of the killed process is still running", k)
				}
			}
			for _, a := range p.actions {
				switch a {
				case "natural":
				case "terminate":
					t0 := time.Now()
					err := sup.Terminate(ctx, &supvmodel.TerminateRequest{Domain: "runtime", Name: p.name})
					c.Check(err == nil, "terminate_ok", "C19/terminate-error", "Terminate of a started process failed", fmt.Sprint(err))
					c.Check(time.Since(t0) < 500*time.Millisecond, "terminate_does_not_wait", "C19/terminate-blocks", "Terminate blocked", nil)
					if p.kind == "ignoreterm" && pid != 0 {
						time.Sleep(20 * time.Millisecond)
						st := procState(pid)
						c.Check(st != "gone" && st != "Z", "terminate_is_sigterm", "C19/terminate-killed-ignorer", "a process ignoring SIGTERM died from Terminate", st)
					}
					if p.kind == "termchild" {
						ok := false
						for i := 0; i < 300; i++ {
							if _, err := os.Stat(p.marker + ".term"); err == nil {
								ok = true
								break
							}
							time.Sleep(2 * time.Millisecond)
						}
						c.Check(ok, "terminate_reaches_group", "C19/terminate-misses-group", "SIGTERM did not reach a child in the process group", nil)
					}
				case "kill":
					err := sup.Kill(ctx, &supvmodel.KillRequest{Domain: "runtime", Name: p.name, Deadline: time.Now().Add(5 * time.Second)})
					if c.Check(err == nil, "kill_ok", "C19/kill-error/"+p.kind, "Kill with a generous deadline failed", fmt.Sprint(err)) {
						checkGone("kill")
					}
				case "killkill", "killterm":
					var w2 sync.WaitGroup
					for j := 0; j < 2; j++ {
						w2.Add(1)
						go func(j int) {
							defer w2.Done()
							if a == "killterm" && j == 1 {
								sup.Terminate(ctx, &supvmodel.TerminateRequest{Domain: "runtime", Name: p.name})
								return
							}
							if err := sup.Kill(ctx, &supvmodel.KillRequest{Domain: "runtime", Name: p.name, Deadline: time.Now().Add(5 * time.Second)}); err == nil {
								checkGone(a)
							} else {
								c.Check(false, "kill_ok", "C19/concurrent-kill-error/"+p.kind, "concurrent Kill failed", fmt.Sprint(err))
							}
						}(j)
					}
					w2.Wait()
				}
				time.Sleep(p.d2)
			}
		}(p)
	}
	wg.Wait()
	// wait for all events
	deadline := time.Now().Add(8 * time.Second)
	for time.Now().Before(deadline) {
		mu.Lock()
		n := len(events)
		mu.Unlock()
		if n >= len(procs) {
			break
		}
		time.Sleep(5 * time.Millisecond)
	}
	time.Sleep(30 * time.Millisecond)
	mu.Lock()
	defer mu.Unlock()
	for _, p := range procs {
		evs := events[p.name]
		if !c.Check(len(evs) == 1, "exactly_one_event", fmt.Sprintf("C19/event-count/%d/%s", len(evs), p.kind), fmt.Sprintf("%d termination events for %s (actions %v)", len(evs), p.name, p.actions), nil) {
			continue
		}
		e := evs[0].Event
		killed := false
		termed := false
		for _, a := range p.actions {
			if strings.HasPrefix(a, "kill") {
				killed = true
			}
			if a == "terminate" || a == "killterm" {
				termed = true
			}
		}
		okc := append([]int32{}, p.wantCode...)
		oks := append([]int32{}, p.wantSig...)
		if killed {
			oks = append(oks, 9)
		}
		if termed {
			switch p.kind {
			case "trapterm":
				okc = append(okc, 7)
			case "ignoreterm":
			case "forks", "termchild":
				oks = append(oks, 15)
				okc = append(okc, 0, 143) // the shell may report its waited child / trap default
			default:
				oks = append(oks, 15)
			}
		}
		good := false
		desc := ""
		if e.ExitStatus != nil {
			desc = fmt.Sprintf("exit status %d", *e.ExitStatus)
			for _, x := range okc {
				if x == *e.ExitStatus {
					good = true
				}
			}
		}
		if e.Signo != nil {
			desc = fmt.Sprintf("signal %d", *e.Signo)
			for _, x := range oks {
				if x == *e.Signo {
					good = true
				}
			}
		}
		c.Check(e.ExitStatus == nil || e.Signo == nil, "status_xor_signal", "C19/status-and-signal", "event carries both an exit status and a signal", p.name)
		c.Check(good, "event_truthful", "C19/event-untruthful/"+p.kind, fmt.Sprintf("%s (actions %v) reported %s; acceptable codes %v signals %v", p.name, p.actions, desc, okc, oks), nil)
	}
	for n := range events {
		found := false
		for _, p := range procs {
			if p.name == n {
				found = true
			}
		}
		c.Check(found, "no_foreign_events", "C19/foreign-event", "event for a name that was never exec'd", n)
	}
	c.Counter("processes", len(procs))
	var ks []string
	for _, p := range procs {
		ks = append(ks, p.kind+":"+strings.Join(p.actions, "+"))
	}
	c.SetTrace(strings.Join(ks, ","), true)
	c.SetSample(ks)
}
