package main

import (
	"bytes"
	"fmt"
	"strings"
	"time"

	"go.amzn.com/lambda/interop"
	"go.amzn.com/verifharness/vh"
)

// C12 — Runtime API calls are answered according to the lifecycle automaton.
// A puppet runtime issues an enumerated call sequence; every answer is
// compared step by step with a reference automaton written from the
// statement / the public Runtime API documentation.

func init() { register("C12", genC12) }

// alphabet
// "restoreEvt" is the platform event "restore requested" arriving while the runtime skipped
// restore/next and is parked in its first next (the only other realistic point, a runtime parked
// in restore/next, is part of the "restnext" step itself).
// "respBig" is a response for the current id whose body exceeds the limit (413; the invocation is then over like
// after any response: next blocks and delivers the following invocation).
var c12Ops = []string{"next", "nextHold", "offer", "restoreEvt", "resp", "respStale", "err", "initerr", "restnext", "resterr", "unknown", "badmethod", "respBig"}

type c12Desc struct {
	Snapshot bool     `json:"snapshot"`
	Seq      []string `json:"seq"`
	// AfterCrash: the sequence is issued by the runtime of the generation that follows a crash of the
	// first one (one reset in between); an invocation is already waiting when that runtime starts
	AfterCrash bool `json:"after_crash,omitempty"`
}

func genC12(tier string, seed int64) []Case {
	var cases []Case
	seen := map[string]bool{}
	add := func(d c12Desc) {
		id := fmt.Sprintf("C12/snap%v/%s", d.Snapshot, strings.Join(d.Seq, ","))
		if d.AfterCrash {
			id = "C12/aftercrash/" + strings.Join(d.Seq, ",")
		}
		if seen[id] {
			return
		}
		seen[id] = true
		cases = append(cases, Case{ID: id, Class: fmt.Sprintf("snap%v/len%d", d.Snapshot, len(d.Seq)), Desc: d, Run: func(c *Ctx) { runC12(c, d) }})
	}
	maxLen := 3
	if tier == "thorough" {
		maxLen = 4
	}
	var rec func(cur []string)
	rec = func(cur []string) {
		if len(cur) > 0 {
			add(c12Desc{Snapshot: false, Seq: append([]string{}, cur...)})
			if (tier == "thorough" && len(cur) <= 3) || len(cur) <= 2 {
				add(c12Desc{AfterCrash: true, Seq: append([]string{}, cur...)})
			}
			if tier == "thorough" || len(cur) <= 2 {
				add(c12Desc{Snapshot: true, Seq: append([]string{}, cur...)})
			}
		}
		if len(cur) == maxLen {
			return
		}
		for _, op := range c12Ops {
			if (op == "offer" || op == "restoreEvt") && !contains(cur, "nextHold") {
				continue // nothing to offer to
			}
			if op == "respBig" && !(contains(cur, "next") && len(cur) <= 2) {
				continue // a 6 MiB upload: only where it can be accepted, and not in every position
			}
			rec(append(cur, op))
		}
	}
	rec(nil)
	// snapshot mode: an invocation that arrives while the runtime is between restore/next and its first next
	for _, seq := range [][]string{
		{"restnext", "offerEarly", "next", "resp", "next"},
		{"restnext", "offerEarly", "next", "err", "nextHold", "offer", "resp"},
		{"restnext", "offerEarly", "resterr"},
		{"restnext", "offerEarly", "nextHold", "resp", "next", "resp"},
		{"restnext", "offerEarly", "unknown", "next", "respBig", "next"},
	} {
		add(c12Desc{Snapshot: true, Seq: seq})
	}
	// longer, sampled sequences biased towards progress (so that deep states are reached)
	r := rng(seed, "C12")
	n := 300
	if tier == "thorough" {
		n = 15000
	}
	prog := []string{"next", "resp", "next", "err", "next", "nextHold", "offer", "resp", "restoreEvt", "respBig"}
	for i := 0; i < n; i++ {
		l := 5 + r.Intn(4)
		var seq []string
		for j := 0; j < l; j++ {
			if r.Intn(3) > 0 {
				seq = append(seq, prog[r.Intn(len(prog))])
			} else {
				seq = append(seq, c12Ops[r.Intn(len(c12Ops))])
			}
		}
		snap := r.Intn(3) == 0
		if snap && r.Intn(2) == 0 {
			seq = append([]string{"restnext"}, seq...)
		}
		add(c12Desc{Snapshot: snap, Seq: seq, AfterCrash: !snap && r.Intn(4) == 0})
	}
	return cases
}

// c12Model is the reference automaton.
type c12Model struct {
	snapshot bool
	state    string // Started InitError Parked Running ResponseSent RestoreParked Restoring RestoreError
	curID    string
	curBody  []byte
}

type c12Expect struct {
	status  int
	etype   string
	parks   bool // the call blocks until a platform event
	skipped bool
}

func runC12(c *Ctx, d c12Desc) {
	w, err := NewWorld(vh.Config{TimeoutMs: 20000, Snapshot: d.Snapshot})
	if err != nil {
		c.Inconclusive("harness: " + err.Error())
		return
	}
	defer w.Close()
	w.RtPlan = func(gen int, p *vh.Proc) vh.ExecPlan { return vh.ExecPlan{Behave: vh.Puppet{ExitOnTerm: true}.Run} }
	w.E.Init()
	rtp := w.E.WaitRuntime(1, 5*time.Second)
	if rtp == nil {
		c.Inconclusive("harness: runtime not started")
		return
	}
	var pendingInv *vh.Invocation
	var pendingPayload []byte
	if d.AfterCrash {
		// generation 1: one invocation during which the runtime dies (exactly one reset follows)
		g1 := w.Party(rtp)
		n1 := vh.Go(func() *vh.Resp { return g1.Next() })
		vh.Settle(n1, func() bool { return w.E.RuntimeState() == "Ready" }, 3*time.Second)
		pre := w.E.InvokeAsync([]byte("event-pre"), vh.InvokeOpts{})
		if r := n1.Wait(5 * time.Second); r == nil || r.Status != 200 {
			c.Inconclusive("harness: first generation did not get its event")
			return
		}
		rtp.RequestExit(vh.Exit{Code: 1})
		if !pre.Wait(10 * time.Second) {
			c.Inconclusive("harness: the crashed invocation never returned")
			return
		}
		// the next invocation starts generation 2 and waits for its runtime
		pendingPayload = []byte("event-1")
		pendingInv = w.E.InvokeAsync(pendingPayload, vh.InvokeOpts{})
		rtp = w.E.WaitRuntime(2, 8*time.Second)
		if rtp == nil {
			c.Check(false, "next_generation_starts", "C12/aftercrash/no-new-runtime", "no runtime was started for the invocation that follows a crash", nil)
			return
		}
	}
	conn1 := w.Party(rtp)
	conn2 := vh.NewParty("rt:"+rtp.Name+"#2", w.E.Addr, w.E.Log, rtp.Ctx)

	m := &c12Model{snapshot: d.Snapshot, state: "Started"}
	var parked *vh.Async // outstanding blocking call (next / restore-next) on conn1
	var parkedOp string
	var staleIDs []string
	var invs []*vh.Invocation
	invN := 0
	var restoreDone chan error
	restoreUsed := false
	trace := []string{}

	// deliver finishes a parked next by offering an invocation (returns false if it did not come back)
	deliver := func() bool {
		invN++
		payload := []byte(fmt.Sprintf("event-%d", invN))
		var inv *vh.Invocation
		if pendingInv != nil {
			inv, payload, pendingInv = pendingInv, pendingPayload, nil
		} else {
			inv = w.E.InvokeAsync(payload, vh.InvokeOpts{})
		}
		invs = append(invs, inv)
		r := parked.Wait(5 * time.Second)
		if !c.Check(r != nil && r.Status == 200, "next_delivers", "C12/next-not-delivered/"+m.state, "a parked next did not return the offered invocation", strings.Join(trace, ",")) {
			return false
		}
		c.Check(bytes.Equal(r.Body, payload) && r.ReqID() != "" && !contains(staleIDs, r.ReqID()), "next_event_fresh", "C12/next-event", "next returned a wrong event or a reused id", nil)
		m.state, m.curID, m.curBody = "Running", r.ReqID(), r.Body
		parked = nil
		return true
	}
	settlePark := func(a *vh.Async, want string) (returned bool) {
		ret, _ := vh.Settle(a, func() bool { return w.E.RuntimeState() == want }, 3*time.Second)
		return ret
	}
	// after the runtime returned to next from ResponseSent the invocation completes: wait for the caller
	finishInvocation := func() {
		if len(invs) > 0 {
			last := invs[len(invs)-1]
			if !last.Wait(5 * time.Second) {
				c.Check(false, "invocation_completes", "C12/invocation-never-completes", "invocation did not complete after response + next", strings.Join(trace, ","))
			}
		}
	}

	for step, op := range d.Seq {
		trace = append(trace, op)
		conn := conn1
		if parked != nil {
			conn = conn2
		}
		var exp c12Expect
		var got *vh.Resp
		blocking := false
		switch op {
		case "offer":
			if parked != nil && parkedOp == "next" && m.state == "Parked" {
				if !deliver() {
					return
				}
			}
			continue
		case "offerEarly":
			// an invocation arrives while the runtime has been released from restore/next and has not asked for next yet
			if m.snapshot && m.state == "Restoring" && pendingInv == nil && parked == nil {
				before := w.Hk.Arrived()["invoke.reserved"]
				invN++
				pendingPayload = []byte(fmt.Sprintf("event-%d", invN))
				invN--
				pendingInv = w.E.InvokeAsync(pendingPayload, vh.InvokeOpts{})
				for dl := time.Now().Add(2 * time.Second); w.Hk.Arrived()["invoke.reserved"] == before && time.Now().Before(dl); {
					time.Sleep(100 * time.Microsecond)
				}
				time.Sleep(2 * time.Millisecond)
			}
			continue
		case "restoreEvt":
			if !m.snapshot || restoreUsed || parked == nil || parkedOp != "next" || m.state != "Parked" || invN != 0 {
				continue
			}
			restoreUsed = true
			ch := make(chan error, 1)
			go func() {
				_, err := w.E.Srv.Restore(&interop.Restore{RestoreHookTimeoutMs: 8000})
				ch <- err
			}()
			select {
			case err := <-ch:
				c.Check(err == nil, "restore_without_hook_succeeds", "C12/restore-event-result", "restore failed although the runtime skipped the restore hook and waits for an invocation", fmt.Sprint(err))
			case <-time.After(4 * time.Second):
				// one-sided: the hook timeout is 8 s, a restore that has nothing to wait for returns at once
				c.Check(false, "restore_without_hook_succeeds", "C12/restore-event-hangs", "restore did not return although the runtime had skipped the restore hook", strings.Join(trace, ","))
			}
			time.Sleep(2 * time.Millisecond)
			if !c.Check(!parked.Done(), "next_blocks_across_restore", fmt.Sprintf("C12/restore-event-released-next/%d", statusOf(parked)), "a next parked before the restore request returned without an invocation being available", strings.Join(trace, ",")) {
				return
			}
			c.Check(w.E.RuntimeState() == "Ready", "next_blocks_across_restore", "C12/restore-event-state/"+w.E.RuntimeState(), "restore request changed the state of a runtime parked in next", nil)
			continue
		case "next", "nextHold":
			if parked != nil {
				continue // a second concurrent next is outside the documented protocol: not issued
			}
			switch m.state {
			case "Started", "ResponseSent", "Restoring":
				exp = c12Expect{parks: true}
			case "Running":
				exp = c12Expect{status: 200}
			default:
				exp = c12Expect{status: 403, etype: "InvalidStateTransition"}
			}
			blocking = exp.parks
			if blocking {
				prev := m.state
				a := vh.Go(func() *vh.Resp { return conn1.Next() })
				if pendingInv != nil && (prev == "Started" || prev == "Restoring") {
					// an invocation is already waiting: this first next completes the initialisation / the restore and is served at once
					parked, parkedOp, m.state = a, "next", "Parked"
					if prev == "Restoring" && restoreDone != nil {
						select {
						case err := <-restoreDone:
							c.Check(err == nil, "restore_completes", "C12/restore-result", "restore returned an error although the runtime asked for next", fmt.Sprint(err))
						case <-time.After(5 * time.Second):
							c.Check(false, "restore_completes", "C12/restore-hangs", "restore did not return after the runtime asked for next", nil)
						}
						restoreDone = nil
					}
					if !deliver() {
						return
					}
					continue
				}
				if settlePark(a, "Ready") {
					r := a.R
					c.Check(false, "next_blocks", fmt.Sprintf("C12/next-did-not-block/%s/%d", prev, r.Status), fmt.Sprintf("next in state %s returned %d %s instead of blocking until an invocation is available", prev, r.Status, r.Etype), strings.Join(trace, ","))
					return
				}
				c.Clause("next_blocks")
				parked, parkedOp = a, "next"
				if prev == "ResponseSent" {
					staleIDs = append(staleIDs, m.curID)
					m.curID = ""
					finishInvocation()
				}
				if prev == "Restoring" && restoreDone != nil {
					select {
					case err := <-restoreDone:
						c.Check(err == nil, "restore_completes", "C12/restore-result", "restore returned an error although the runtime asked for next", fmt.Sprint(err))
					case <-time.After(5 * time.Second):
						c.Check(false, "restore_completes", "C12/restore-hangs", "restore did not return after the runtime asked for next", nil)
					}
					restoreDone = nil
				}
				m.state = "Parked"
				if op == "next" {
					if !deliver() {
						return
					}
				}
				continue
			}
			got = conn.Next()
			if exp.status == 200 {
				c.Check(got.Status == 200 && got.ReqID() == m.curID && bytes.Equal(got.Body, m.curBody), "repeated_next_same_invocation", "C12/repeated-next", "next repeated before responding did not return the same invocation", []string{got.ReqID(), m.curID})
			}
		case "resp", "err", "respStale", "respBig":
			id := m.curID
			if op == "respStale" {
				id = "11111111-2222-3333-4444-555555555555"
				if len(staleIDs) > 0 {
					id = staleIDs[len(staleIDs)-1]
				}
			}
			if id == "" {
				id = "00000000-0000-0000-0000-000000000000" // nothing in flight: any id is wrong
			}
			switch {
			case op == "respBig" && m.state == "Running":
				exp = c12Expect{status: 413}
			case op != "respStale" && m.state == "Running":
				exp = c12Expect{status: 202}
			case op != "respStale" && m.state == "ResponseSent":
				exp = c12Expect{status: 403, etype: "InvalidStateTransition"}
			default:
				exp = c12Expect{status: 400, etype: "InvalidRequestID"}
			}
			if op == "respBig" {
				got = conn.Respond(id, bigBody, nil)
				if exp.status == 413 && got.Status == 413 {
					m.state = "ResponseSent" // answered (with an error to the caller): the invocation is over
				}
			} else if op == "err" {
				got = conn.Error(id, []byte(`{"errorMessage":"x"}`), map[string]string{"Lambda-Runtime-Function-Error-Type": "Function.X"})
			} else {
				got = conn.Respond(id, []byte(fmt.Sprintf("resp-%d", step)), nil)
			}
			if exp.status == 202 && got.Status == 202 {
				m.state = "ResponseSent"
			}
		case "initerr":
			switch m.state {
			case "Started":
				exp = c12Expect{status: 202}
			case "Restoring":
				exp = c12Expect{status: 202}
			default:
				exp = c12Expect{status: 403, etype: "InvalidStateTransition"}
			}
			got = conn.InitError([]byte(`{"errorMessage":"init failed"}`), map[string]string{"Lambda-Runtime-Function-Error-Type": "Runtime.Boom"})
			if got.Status == 202 {
				if m.state == "Restoring" {
					m.state = "RestoreError"
				} else {
					m.state = "InitError"
				}
				if d.AfterCrash && exp.status == 202 {
					// the waiting invocation now fails and the environment is reset: end of this generation
					c.State(m.state)
					c.SetTrace("aftercrash:"+strings.Join(trace, ",")+"->InitError", true)
					return
				}
			}
		case "restnext":
			if parked != nil {
				continue
			}
			switch {
			case !m.snapshot:
				exp = c12Expect{status: 404}
			case m.state == "Started":
				exp = c12Expect{parks: true}
			default:
				exp = c12Expect{status: 403, etype: "InvalidStateTransition"}
			}
			if exp.parks {
				a := vh.Go(func() *vh.Resp { return conn1.RestoreNext() })
				if settlePark(a, "RestoreReady") {
					c.Check(false, "restore_next_blocks", fmt.Sprintf("C12/restore-next-did-not-block/%d", a.R.Status), "restore/next returned before a restore was requested", strings.Join(trace, ","))
					return
				}
				c.Clause("restore_next_blocks")
				// platform event: restore requested
				restoreDone = make(chan error, 1)
				rd := restoreDone
				go func() {
					_, err := w.E.Srv.Restore(&interop.Restore{RestoreHookTimeoutMs: 8000})
					rd <- err
				}()
				r := a.Wait(5 * time.Second)
				if !c.Check(r != nil && r.Status == 200, "restore_next_released", "C12/restore-next-not-released", "restore/next was not released by the restore request", nil) {
					return
				}
				m.state = "Restoring"
				continue
			}
			got = conn.RestoreNext()
		case "resterr":
			switch {
			case !m.snapshot:
				exp = c12Expect{status: 404}
			case m.state == "Restoring":
				exp = c12Expect{status: 202}
			default:
				exp = c12Expect{status: 403, etype: "InvalidStateTransition"}
			}
			got = conn.RestoreError([]byte(`{}`), map[string]string{"Lambda-Runtime-Function-Error-Type": "Runtime.RestoreBoom"})
			if got.Status == 202 {
				m.state = "RestoreError"
			}
		case "unknown":
			exp = c12Expect{status: 404}
			got = conn.Call("unknown", "GET", "/2018-06-01/runtime/invocation/nope", nil, nil)
		case "badmethod":
			exp = c12Expect{status: 405}
			got = conn.Call("badmethod", "DELETE", "/2018-06-01/runtime/invocation/next", nil, nil)
		}
		if got == nil {
			continue
		}
		sig := fmt.Sprintf("C12/answer/%s-in-%s/got-%d-%s/want-%d-%s", op, m.state, got.Status, got.Etype, exp.status, exp.etype)
		okStatus := got.Status == exp.status && (exp.etype == "" || got.Etype == exp.etype)
		c.Check(okStatus, "answer_"+classify(exp.status), sig, fmt.Sprintf("step %d (%s) in model state %s answered %d %s, automaton says %d %s; sequence %s", step, op, m.state, got.Status, got.Etype, exp.status, exp.etype, strings.Join(trace, ",")), nil)
		if !okStatus {
			break
		}
		c.State(m.state)
	}
	// restore error path: the restore call must have returned an error for RestoreError
	if restoreDone != nil && m.state == "RestoreError" {
		select {
		case err := <-restoreDone:
			c.Check(err != nil, "restore_error_reported", "C12/restore-error-not-reported", "runtime reported a restore/init error but the restore call succeeded", nil)
		case <-time.After(5 * time.Second):
			c.Check(false, "restore_error_reported", "C12/restore-hangs-after-error", "restore did not return after the runtime reported an error", nil)
		}
	}
	c.SetTrace(fmt.Sprintf("%v%v:", d.Snapshot, d.AfterCrash)+strings.Join(d.Seq, ",")+"->"+m.state, len(d.Seq) > 0)
	if c.WantSample || c.Violated() {
		c.SetSample(sampleLog(w, 120))
	}
}

var bigBody = make([]byte, maxPayload+77)

func classify(st int) string {
	switch {
	case st == 0:
		return "none"
	case st < 300:
		return "accepted"
	case st == 400:
		return "wrong_id"
	case st == 403:
		return "illegal_state"
	case st == 404 || st == 405:
		return "unknown_route"
	}
	return fmt.Sprint(st)
}

func statusOf(a *vh.Async) int {
	if a != nil && a.Done() && a.R != nil {
		return a.R.Status
	}
	return 0
}
