package main

import (
	"bytes"
	"context"
	"fmt"
	"sort"
	"strconv"
	"strings"
	"time"

	"go.amzn.com/verifharness/vh"
)

// C03 — init barrier; C04 — invoke barrier and INVOKE fan-out.
// All parties are puppets; the conductor (this goroutine) issues every API
// call in the enumerated total order and releases step k+1 only when step k
// has returned or is known to be parked inside the emulator.

func init() {
	register("C03", genC03)
	register("C04", genC04)
}

type bStep struct {
	Party string // "rt", "e0".. (external), "i0".. (internal), "inv", "late"
	Op    string // register | next | invoke | lateregister | respond
}

func (s bStep) String() string { return s.Party + "." + s.Op }

type c03Desc struct {
	Ext        []string `json:"ext_subs"` // per external extension: subscription string e.g. "IS", "I", "S", ""
	Int        []string `json:"int_subs"` // per internal extension: "I" or ""
	Order      []string `json:"order"`
	Dirs       int      `json:"dirs"`
	Odd        bool     `json:"odd_names"`
	ErrReport  string   `json:"e0_reports_error_instead_of_next,omitempty"` // "init" | "exit": e0 reports an error where it would ask for next, and stays alive
	HoldLaunch bool     `json:"hold_launch,omitempty"`                      // the launch loop is paused after the first extension was started: it registers while the others do not exist yet
	Helper     string   `json:"helper_registers_before,omitempty"`          // before this "eN.register" step a process started by an already launched extension registers under a name that is no extension file (an internal-style registration while the external phase is still open) and asks for next
	Gap        int      `json:"gap_ms_after_rt_next,omitempty"`             // let the init sequence run on after the runtime's first next before the next step is issued
}

func subsOf(s string) []string {
	res := []string{}
	if strings.Contains(s, "I") {
		res = append(res, "INVOKE")
	}
	if strings.Contains(s, "S") {
		res = append(res, "SHUTDOWN")
	}
	return res
}

// linearExtensions enumerates all total orders of steps that respect preds
// (preds[i] = indices that must come before i). limit <= 0: no limit.
func linearExtensions(n int, preds [][]int, limit int) [][]int {
	var res [][]int
	used := make([]bool, n)
	cur := make([]int, 0, n)
	var rec func()
	rec = func() {
		if limit > 0 && len(res) >= limit {
			return
		}
		if len(cur) == n {
			res = append(res, append([]int{}, cur...))
			return
		}
		for i := 0; i < n; i++ {
			if used[i] {
				continue
			}
			ok := true
			for _, p := range preds[i] {
				if !used[p] {
					ok = false
					break
				}
			}
			if !ok {
				continue
			}
			used[i] = true
			cur = append(cur, i)
			rec()
			cur = cur[:len(cur)-1]
			used[i] = false
		}
	}
	rec()
	return res
}

func c03Steps(ne, ni int) ([]bStep, [][]int) {
	var steps []bStep
	idx := map[string]int{}
	add := func(s bStep) int {
		steps = append(steps, s)
		idx[s.String()] = len(steps) - 1
		return len(steps) - 1
	}
	for e := 0; e < ne; e++ {
		add(bStep{fmt.Sprintf("e%d", e), "register"})
		add(bStep{fmt.Sprintf("e%d", e), "next"})
	}
	for i := 0; i < ni; i++ {
		add(bStep{fmt.Sprintf("i%d", i), "register"})
		add(bStep{fmt.Sprintf("i%d", i), "next"})
	}
	add(bStep{"rt", "next"})
	add(bStep{"inv", "invoke"})
	preds := make([][]int, len(steps))
	for e := 0; e < ne; e++ {
		r := idx[fmt.Sprintf("e%d.register", e)]
		preds[idx[fmt.Sprintf("e%d.next", e)]] = []int{r}
		// runtime (and internal extensions, which live in it) start only after every external registered
		preds[idx["rt.next"]] = append(preds[idx["rt.next"]], r)
		for i := 0; i < ni; i++ {
			preds[idx[fmt.Sprintf("i%d.register", i)]] = append(preds[idx[fmt.Sprintf("i%d.register", i)]], r)
		}
	}
	for i := 0; i < ni; i++ {
		r := idx[fmt.Sprintf("i%d.register", i)]
		preds[idx[fmt.Sprintf("i%d.next", i)]] = []int{r}
		// no constraint against rt.next: an internal registration issued after the runtime's
		// first next is either refused (RegistrationClosed) or, if it was still accepted,
		// makes that extension a party the barrier has to wait for
	}
	return steps, preds
}

func genC03(tier string, seed int64) []Case {
	var cases []Case
	seen := map[string]bool{}
	add := func(d c03Desc) {
		id := fmt.Sprintf("C03/e[%s]/i[%s]/d%d/%s", strings.Join(d.Ext, ","), strings.Join(d.Int, ","), d.Dirs, strings.Join(d.Order, ">"))
		if d.HoldLaunch {
			id += "/hold-launch"
		}
		if d.ErrReport != "" {
			id += "/e0-" + d.ErrReport + "error"
		}
		if d.Helper != "" {
			id += "/helper-before-" + d.Helper
		}
		if seen[id] {
			return
		}
		seen[id] = true
		cls := fmt.Sprintf("e%d-i%d", len(d.Ext), len(d.Int))
		cases = append(cases, Case{ID: id, Class: cls, Desc: d, Run: func(c *Ctx) { runC03(c, d) }})
	}
	orderNames := func(steps []bStep, ord []int) []string {
		var res []string
		for _, i := range ord {
			res = append(res, steps[i].String())
		}
		return res
	}
	extSubsAll := []string{"IS", "I", "S", ""}
	r := rng(seed, "C03")
	type cfg struct{ ne, ni int }
	exh := []cfg{{0, 0}, {1, 0}, {0, 1}, {1, 1}, {2, 0}, {2, 1}, {0, 2}}
	if tier == "thorough" {
		exh = append(exh, cfg{1, 2}, cfg{3, 0})
	}
	for _, cf := range exh {
		steps, preds := c03Steps(cf.ne, cf.ni)
		orders := linearExtensions(len(steps), preds, 0)
		for oi, ord := range orders {
			d := c03Desc{Order: orderNames(steps, ord)}
			for e := 0; e < cf.ne; e++ {
				d.Ext = append(d.Ext, extSubsAll[(oi+e)%len(extSubsAll)])
			}
			for i := 0; i < cf.ni; i++ {
				d.Int = append(d.Int, []string{"I", ""}[(oi+i)%2])
			}
			d.Dirs = oi % 2
			d.Odd = oi%3 == 0
			d.Gap = 3 * ((oi / 2) % 2)
			add(d)
			if cf.ne >= 2 && d.Order[0] == "e0.register" && oi%4 == 0 {
				h := d
				h.Odd, h.HoldLaunch = false, true
				add(h)
			}
			if cf.ne >= 2 && oi%5 == 2 {
				// the helper registers before the LAST external registration of this order
				h := d
				h.Odd = false
				for _, st := range h.Order {
					if strings.HasPrefix(st, "e") && strings.HasSuffix(st, ".register") {
						h.Helper = st
					}
				}
				add(h)
			}
			if cf.ne >= 1 && oi%6 == 1 {
				h := d
				h.ErrReport = []string{"init", "exit"}[(oi/6)%2]
				add(h)
			}
		}
	}
	// every subscription assignment for (2 ext, 1 int) with each party held last
	{
		steps, preds := c03Steps(2, 1)
		orders := linearExtensions(len(steps), preds, 0)
		last := map[string][]int{}
		for _, ord := range orders {
			k := steps[ord[len(ord)-1]].String()
			if _, ok := last[k]; !ok {
				last[k] = ord
			}
		}
		var keys []string
		for k := range last {
			keys = append(keys, k)
		}
		sort.Strings(keys)
		for _, s0 := range extSubsAll {
			for _, s1 := range extSubsAll {
				for _, si := range []string{"I", ""} {
					for _, k := range keys {
						add(c03Desc{Ext: []string{s0, s1}, Int: []string{si}, Order: orderNames(steps, last[k]), Dirs: 1, Gap: 3})
					}
				}
			}
		}
	}
	// sampled orders for the large configuration
	n := 60
	if tier == "thorough" {
		n = 12000
	}
	for k := 0; k < n; k++ {
		ne, ni := 1+r.Intn(3), r.Intn(3)
		if tier != "thorough" {
			ne, ni = 3, 2
		}
		steps, preds := c03Steps(ne, ni)
		// random linear extension
		ord := randomLinearExtension(len(steps), preds, r)
		d := c03Desc{Order: orderNames(steps, ord), Dirs: r.Intn(3), Odd: r.Intn(2) == 0, Gap: 3 * r.Intn(2)}
		for e := 0; e < ne; e++ {
			d.Ext = append(d.Ext, extSubsAll[r.Intn(4)])
		}
		for i := 0; i < ni; i++ {
			d.Int = append(d.Int, []string{"I", ""}[r.Intn(2)])
		}
		add(d)
	}
	cases = append(cases, genC03Regen(tier, seed)...)
	return cases
}

func randomLinearExtension(n int, preds [][]int, r interface{ Intn(int) int }) []int {
	used := make([]bool, n)
	var res []int
	for len(res) < n {
		var avail []int
		for i := 0; i < n; i++ {
			if used[i] {
				continue
			}
			ok := true
			for _, p := range preds[i] {
				if !used[p] {
					ok = false
				}
			}
			if ok {
				avail = append(avail, i)
			}
		}
		x := avail[r.Intn(len(avail))]
		used[x] = true
		res = append(res, x)
	}
	return res
}

var oddNames = []string{"with space", "ünï-ext", ".dotfile", "UPPER.sh"}

func runC03(c *Ctx, d c03Desc) {
	ne, ni := len(d.Ext), len(d.Int)
	extNames := []string{}
	for e := 0; e < ne; e++ {
		n := fmt.Sprintf("ext%d", e)
		if d.Odd {
			n = oddNames[e%len(oddNames)]
		}
		extNames = append(extNames, n)
	}
	var dirs []string
	for i := 0; i < d.Dirs; i++ {
		dirs = append(dirs, fmt.Sprintf("adir%d", i))
	}
	w, err := NewWorld(vh.Config{TimeoutMs: 8000, Extensions: extNames, ExtDirs: dirs})
	if err != nil {
		c.Inconclusive("harness: " + err.Error())
		return
	}
	defer w.Close()
	hk := w.Hk
	pup := func(*vh.Proc) vh.ExecPlan { return vh.ExecPlan{Behave: vh.Puppet{ExitOnTerm: true}.Run} }
	w.RtPlan = func(gen int, p *vh.Proc) vh.ExecPlan { return pup(p) }
	w.ExtPlan = func(base string, gen int, p *vh.Proc) vh.ExecPlan { return pup(p) }
	if d.HoldLaunch {
		hk.Hold("exec.beforeExitChannel", 1)
	}
	w.E.Init()
	if d.HoldLaunch && !hk.WaitHeld("exec.beforeExitChannel", 5*time.Second) {
		c.Inconclusive("pause point exec.beforeExitChannel not reached")
		return
	}

	parties := map[string]*vh.Party{}
	pending := map[string]*vh.Async{} // outstanding next per party
	regOK := map[string]bool{}
	firstNextCall := map[string]int64{}
	var inv *vh.Invocation
	var helperNext *vh.Async
	helperOK := false
	getExt := func(e int) *vh.Party {
		k := fmt.Sprintf("e%d", e)
		if pt, ok := parties[k]; ok {
			return pt
		}
		p := w.E.WaitExt(extNames[e], 1, 5*time.Second)
		if p == nil {
			return nil
		}
		parties[k] = w.Party(p)
		return parties[k]
	}
	getRt := func() *vh.Party {
		if pt, ok := parties["rt"]; ok {
			return pt
		}
		p := w.E.WaitRuntime(1, 5*time.Second)
		if p == nil {
			return nil
		}
		parties["rt"] = w.Party(p)
		return parties["rt"]
	}
	getInt := func(i int) *vh.Party {
		k := fmt.Sprintf("i%d", i)
		if pt, ok := parties[k]; ok {
			return pt
		}
		p := w.E.WaitRuntime(1, 5*time.Second)
		if p == nil {
			return nil
		}
		// an internal extension lives inside the runtime process: same lifetime, own connection
		pt := vh.NewParty("ext:internal-"+k, w.E.Addr, w.E.Log, p.Ctx)
		parties[k] = pt
		return pt
	}
	intName := func(i int) string { return fmt.Sprintf("internal%d", i) }

	for stepIdx, stepName := range d.Order {
		if d.HoldLaunch && stepIdx == 1 {
			// the first extension has registered while the launch loop was paused: let it launch the others
			launched := 0
			for _, p := range w.E.Sup.Procs() {
				if p.Role == "ext" {
					launched++
				}
			}
			c.Check(launched == 1, "registered_during_launch", "C03/harness-hold-launch", "launch loop was not paused after the first extension", launched)
			hk.Release("exec.beforeExitChannel")
		}
		if d.Helper != "" && d.Helper == stepName && helperNext == nil {
			helper := vh.NewParty("ext:helper", w.E.Addr, w.E.Log, context.Background())
			defer helper.Close()
			r := helper.Register("ext-helper", nil, "")
			c.Check(r.Status == 200, "register_accepted", fmt.Sprintf("C03/helper-register-refused/%d/%s", r.Status, r.Etype), "an internal-style registration while the external extensions were still registering was refused", stepName)
			if r.Status == 200 {
				helperOK = true
				helperNext = vh.Go(func() *vh.Resp { return helper.ExtNext() })
				vh.Settle(helperNext, func() bool { return w.E.ExtState("ext-helper") == "Ready" }, 3*time.Second)
			}
		}
		dot := strings.Index(stepName, ".")
		party, op := stepName[:dot], stepName[dot+1:]
		switch {
		case party == "inv":
			before := hk.Arrived()["invoke.reserved"]
			inv = w.E.InvokeAsync([]byte("first-event"), vh.InvokeOpts{TraceID: "Root=1-5759e988-bd862e3fe1be46a994272793;Sampled=1"})
			dl := time.Now().Add(3 * time.Second)
			for hk.Arrived()["invoke.reserved"] == before && time.Now().Before(dl) {
				time.Sleep(50 * time.Microsecond)
			}
		case party == "rt":
			pt := getRt()
			if pt == nil {
				c.Check(false, "runtime_started", "C03/runtime-not-started", "runtime was not exec'd although every external extension had registered", d.Order)
				return
			}
			a := vh.Go(func() *vh.Resp { return pt.Next() })
			pending["rt"] = a
			vh.Settle(a, func() bool { return w.E.RuntimeState() == "Ready" }, 3*time.Second)
			if d.Gap > 0 {
				time.Sleep(time.Duration(d.Gap) * time.Millisecond)
			}
		case party[0] == 'e':
			e, _ := strconv.Atoi(party[1:])
			pt := getExt(e)
			if pt == nil {
				c.Check(false, "ext_started", "C03/extension-not-started", "an extension file was not launched", extNames[e])
				return
			}
			if op == "register" {
				// the runtime must not have been started before this registration
				if ne > 0 {
					rtStarted := w.E.Sup.WaitProc(func(p *vh.Proc) bool { return p.Role == "runtime" }, 0) != nil
					c.Check(!rtStarted, "runtime_waits_for_registrations", "C03/runtime-started-early", "runtime exec'd before an external extension registered", stepName)
				}
				r := pt.Register(extNames[e], subsOf(d.Ext[e]), "")
				regOK[party] = r.Status == 200
				c.Check(r.Status == 200, "register_accepted", fmt.Sprintf("C03/register-refused/%d/%s", r.Status, r.Etype), "registration of a launched external extension was refused", stepName)
			} else if d.ErrReport != "" && e == 0 {
				// instead of asking for next the extension reports an error - and stays alive: it has NOT arrived
				var r *vh.Resp
				if d.ErrReport == "init" {
					r = pt.ExtInitError(pt.ID(), "Extension.C03Init")
				} else {
					r = pt.ExtExitError(pt.ID(), "Extension.C03Exit")
				}
				c.Check(r.Status == 202, "error_report_accepted", fmt.Sprintf("C03/error-report-refused/%d", r.Status), "error report of a registered extension before its first next was refused", stepName)
			} else {
				a := vh.Go(func() *vh.Resp { return pt.ExtNext() })
				pending[party] = a
				name := extNames[e]
				vh.Settle(a, func() bool { return w.E.ExtState(name) == "Ready" }, 3*time.Second)
			}
		case party[0] == 'i':
			i, _ := strconv.Atoi(party[1:])
			pt := getInt(i)
			if pt == nil {
				c.Check(false, "runtime_started", "C03/runtime-not-started", "runtime was not exec'd although every external extension had registered", d.Order)
				return
			}
			if op == "register" {
				_, rtAsked := pending["rt"]
				delivered := rtAsked && pending["rt"].Done()
				r := pt.Register(intName(i), subsOf(d.Int[i]), "")
				regOK[party] = r.Status == 200
				closed := r.Status == 403 && r.Etype == "Extension.RegistrationClosed"
				switch {
				case !rtAsked:
					c.Check(r.Status == 200, "register_accepted", fmt.Sprintf("C03/int-register-refused/%d/%s", r.Status, r.Etype), "registration of an internal extension before the runtime's first next was refused", stepName)
				case delivered:
					c.Check(closed, "late_register_refused", fmt.Sprintf("C03/late-register/%d/%s", r.Status, r.Etype), "registration after the first delivery was not refused with Extension.RegistrationClosed", stepName)
				default:
					// after the runtime's first next, before the first delivery: closed, or accepted and then waited for
					c.Check(closed || r.Status == 200, "late_register_closed_or_counted", fmt.Sprintf("C03/int-late-register/%d/%s", r.Status, r.Etype), "internal registration after the runtime's first next was neither accepted nor refused with RegistrationClosed", stepName)
					if r.Status == 200 {
						c.Counter("late_internal_registration_accepted", 1)
					} else {
						c.Counter("late_internal_registration_refused", 1)
					}
				}
			} else if !regOK[party] {
				// registration was refused: not a party of the barrier
				c.Counter("skipped_next_of_refused_registrant", 1)
			} else {
				a := vh.Go(func() *vh.Resp { return pt.ExtNext() })
				pending[party] = a
				name := intName(i)
				vh.Settle(a, func() bool { return w.E.ExtState(name) == "Ready" }, 3*time.Second)
			}
		}
		// with a gap configured, give the emulator time to act on this arrival (complete init,
		// dispatch a waiting invocation) before the next party moves: a delivery that should
		// not happen then shows up BEFORE the remaining parties have asked for next
		if d.Gap > 0 && op == "next" && party != "rt" {
			time.Sleep(time.Duration(d.Gap) * time.Millisecond)
		}
		// record states seen at this quiescent point
		st := w.E.State()
		sn := "rt=-"
		if st.Runtime != nil {
			sn = "rt=" + st.Runtime.State.Name
		}
		var es []string
		for _, x := range st.Extensions {
			es = append(es, x.State.Name)
		}
		sort.Strings(es)
		c.State(sn + " ext=" + strings.Join(es, ","))
	}
	if d.ErrReport != "" {
		// e0 never asked for next (it reported an error and is still running): nobody may be served
		time.Sleep(30 * time.Millisecond)
		served := ""
		for k, a := range pending {
			if a.Done() && a.R != nil && a.R.Status == 200 {
				served = k
			}
		}
		c.Check(served == "", "no_delivery_before_all_arrived", "C03/early-delivery/after-error-report", fmt.Sprintf("%s was served although extension e0 (registered, reported an %s error, still running) never asked for next", served, d.ErrReport), d.Order)
		c.Check(inv == nil || !inv.Done() || inv.Err != nil, "no_delivery_before_all_arrived", "C03/early-completion/after-error-report", "the first invocation completed successfully although an accepted extension never asked for next", nil)
		// tidy up: the extension's process goes away, the initialisation fails
		if p := w.E.WaitExt(extNames[0], 1, 0); p != nil {
			p.RequestExit(vh.Exit{Code: 1})
		}
		if inv != nil {
			inv.Wait(8 * time.Second)
		}
		c.SetInterleaving(strings.Join(d.Order, ">") + "/err-" + d.ErrReport)
		c.SetTrace(fmt.Sprintf("e%v i%v err-%s ", d.Ext, d.Int, d.ErrReport)+strings.Join(d.Order, ">"), true)
		if c.WantSample || c.Violated() {
			c.SetSample(sampleLog(w, 100))
		}
		return
	}
	// every party has arrived and the invocation was issued: deliveries must follow
	evs := w.E.Log.Snapshot()
	for _, e := range evs {
		if e.Kind == "call" && (e.Op == "next" || e.Op == "extnext") {
			if _, ok := firstNextCall[e.Src]; !ok {
				firstNextCall[e.Src] = e.Seq
			}
		}
	}
	rtEv := pending["rt"].Wait(5 * time.Second)
	if !c.Check(rtEv != nil && rtEv.Status == 200, "init_completes", "C03/init-never-completes", "all parties arrived but the runtime never received the first invocation", d.Order) {
		c.SetSample(sampleLog(w, 100))
		return
	}
	// (c) nobody was served before everyone arrived
	evs = w.E.Log.Snapshot()
	lastArrival := int64(0)
	for _, s := range firstNextCall {
		if s > lastArrival {
			lastArrival = s
		}
	}
	firstDelivery := int64(1 << 62)
	who := ""
	for _, e := range evs {
		if e.Kind == "ret" && (e.Op == "next" || e.Op == "extnext") && e.Status == 200 && e.Seq < firstDelivery {
			firstDelivery, who = e.Seq, e.Src
		}
	}
	c.Check(firstDelivery > lastArrival, "no_delivery_before_all_arrived", "C03/early-delivery", fmt.Sprintf("%s received an event (seq %d) before the last party asked for next (seq %d)", who, firstDelivery, lastArrival), nil)
	nInt := 0
	for i := 0; i < ni; i++ {
		if regOK[fmt.Sprintf("i%d", i)] {
			nInt++
		}
	}
	if helperOK {
		nInt++
		time.Sleep(3 * time.Millisecond)
		c.Check(!helperNext.Done(), "non_subscriber_not_served", "C03/non-subscriber-served/helper", "the helper registration (no subscription) was released by the first invocation", nil)
	}
	c.Check(len(firstNextCall) == 1+ne+nInt, "arrivals_counted", "C03/harness-arrivals", "harness did not record all arrivals", len(firstNextCall))

	// (a) launched multiset == non-directory entries, names, no directory launched
	var launched []string
	for _, p := range w.E.Sup.Procs() {
		if p.Role == "ext" {
			launched = append(launched, p.Base)
			c.Check(p.Name == fmt.Sprintf("extension-%s-%d", p.Base, 1) && strings.HasSuffix(p.Path, "/opt/extensions/"+p.Base), "ext_named_by_base", "C03/ext-name", "external extension process name / path is not derived from its base name", p.Name+" "+p.Path)
		}
	}
	sort.Strings(launched)
	want := append([]string{}, extNames...)
	sort.Strings(want)
	c.Check(strings.Join(launched, "\x00") == strings.Join(want, "\x00"), "launch_exactly_once", "C03/launch-set", "launched extensions differ from the non-directory entries of the extensions directory", []interface{}{launched, want})

	// (b) every external register was issued before the runtime exec
	var rtExec int64
	for _, e := range evs {
		if e.Src == "sup" && e.Kind == "exec" && strings.HasPrefix(e.Op, "runtime-") {
			rtExec = e.Seq
		}
	}
	for _, e := range evs {
		if e.Kind == "call" && e.Op == "register" && strings.HasPrefix(e.Src, "ext:extension-") {
			c.Check(e.Seq < rtExec, "register_before_runtime_exec", "C03/runtime-exec-before-register", "runtime process was exec'd before an external extension issued register", nil)
		}
	}

	// INVOKE subscribers got the event, others did not
	for k, a := range pending {
		if k == "rt" {
			continue
		}
		var sub string
		if k[0] == 'e' {
			e, _ := strconv.Atoi(k[1:])
			sub = d.Ext[e]
		} else {
			i, _ := strconv.Atoi(k[1:])
			sub = d.Int[i]
		}
		if strings.Contains(sub, "I") {
			r := a.Wait(3 * time.Second)
			ok := r != nil && r.Status == 200 && parseExtEvent(r.Body).EventType == "INVOKE" && parseExtEvent(r.Body).RequestID == rtEv.ReqID()
			c.Check(ok, "subscriber_served", "C03/subscriber-not-served", "an INVOKE subscriber did not receive the first invocation", k)
		} else {
			time.Sleep(3 * time.Millisecond)
			c.Check(!a.Done(), "non_subscriber_not_served", "C03/non-subscriber-served", "an extension not subscribed to INVOKE was released by the first invocation", k)
		}
	}

	// (d) registration after the first delivery is refused with RegistrationClosed
	{
		p := w.E.WaitRuntime(1, time.Second)
		pt := vh.NewParty("ext:internal-late", w.E.Addr, w.E.Log, p.Ctx)
		r := pt.Register("late-internal", []string{"INVOKE"}, "")
		c.Check(r.Status == 403 && r.Etype == "Extension.RegistrationClosed", "late_register_refused", fmt.Sprintf("C03/late-register/%d/%s", r.Status, r.Etype), "registration after the first delivery was not refused with Extension.RegistrationClosed", nil)
		if ne > 0 {
			// a second register by an already registered external extension must also be refused
			r2 := parties["e0"].Register(extNames[0], []string{"INVOKE"}, "")
			c.Check(r2.Status == 403, "late_register_refused", fmt.Sprintf("C03/late-reregister/%d", r2.Status), "re-registration after the first delivery was accepted", nil)
		}
	}

	// (e) the invocation completes once everybody finishes
	rt := parties["rt"]
	rt.Respond(rtEv.ReqID(), []byte("ok-body"), nil)
	a := vh.Go(func() *vh.Resp { return rt.Next() })
	vh.Settle(a, func() bool { return w.E.RuntimeState() == "Ready" }, 3*time.Second)
	for k := range pending {
		if k == "rt" {
			continue
		}
		var sub string
		if k[0] == 'e' {
			e, _ := strconv.Atoi(k[1:])
			sub = d.Ext[e]
		} else {
			i, _ := strconv.Atoi(k[1:])
			sub = d.Int[i]
		}
		if strings.Contains(sub, "I") {
			pt := parties[k]
			vh.Go(func() *vh.Resp { return pt.ExtNext() })
		}
	}
	ok := inv.Wait(6*time.Second) && inv.Err == nil && bytes.Equal(inv.W.Body(), []byte("ok-body"))
	c.Check(ok, "first_invocation_succeeds", "C03/first-invocation-fails", "all parties arrived and behaved, yet the first invocation did not succeed", vh.ErrName(inv.Err))

	lifecycleOracle(c, w)
	c.SetInterleaving(strings.Join(d.Order, ">"))
	c.SetTrace(fmt.Sprintf("e%v i%v d%d h%v helper@%s ", d.Ext, d.Int, d.Dirs, d.HoldLaunch, d.Helper)+strings.Join(d.Order, ">"), true)
	if c.WantSample || c.Violated() {
		c.SetSample(sampleLog(w, 100))
	}
}

// ---------------------------------------------------------------------------
// C04
// ---------------------------------------------------------------------------

type c04Desc struct {
	Ext    []string   `json:"ext_subs"`
	Int    []string   `json:"int_subs"`
	Orders [][]string `json:"orders"` // per invocation: order of rt.respond, rt.next, <party>.next for INVOKE subscribers
	Mode   []string   `json:"mode"`   // per invocation: response | error
	// Distract: in the LAST invocation the party held to the last position first makes another Extensions API
	// call than next - "exiterr" (/extension/exit/error: accepted, the extension stays alive and never asks for
	// next: the scenario ends there) or "initerr" (/extension/init/error: refused at this point, then next) -
	// which must not count as its arrival at the barrier
	Distract string `json:"distract,omitempty"`
}

func c04Parties(ext, in []string) []string {
	var res []string
	for e, s := range ext {
		if strings.Contains(s, "I") {
			res = append(res, fmt.Sprintf("e%d", e))
		}
	}
	for i, s := range in {
		if strings.Contains(s, "I") {
			res = append(res, fmt.Sprintf("i%d", i))
		}
	}
	return res
}

func c04Orders(subs []string) [][]string {
	steps := []bStep{{"rt", "respond"}, {"rt", "next"}}
	for _, s := range subs {
		steps = append(steps, bStep{s, "next"})
	}
	preds := make([][]int, len(steps))
	preds[1] = []int{0}
	var res [][]string
	for _, ord := range linearExtensions(len(steps), preds, 0) {
		var o []string
		for _, i := range ord {
			o = append(o, steps[i].String())
		}
		res = append(res, o)
	}
	return res
}

func genC04(tier string, seed int64) []Case {
	var cases []Case
	seen := map[string]bool{}
	add := func(d c04Desc) {
		var os []string
		for _, o := range d.Orders {
			os = append(os, strings.Join(o, ">"))
		}
		id := fmt.Sprintf("C04/e[%s]/i[%s]/%s/%s", strings.Join(d.Ext, ","), strings.Join(d.Int, ","), strings.Join(d.Mode, ""), strings.Join(os, "|"))
		if d.Distract != "" {
			id += "/distract=" + d.Distract
		}
		if seen[id] {
			return
		}
		seen[id] = true
		cases = append(cases, Case{ID: id, Class: fmt.Sprintf("e%d-i%d", len(d.Ext), len(d.Int)), Desc: d, Run: func(c *Ctx) { runC04(c, d) }})
	}
	r := rng(seed, "C04")
	subsAll := []string{"IS", "I", "S", ""}
	modes := []string{"response", "error"}
	// all subscription sets over 0..2 external; every order appears at each of the 3 positions
	for ne := 0; ne <= 3; ne++ {
		var assign func(i int, cur []string)
		assign = func(i int, cur []string) {
			if i == ne {
				ext := append([]string{}, cur...)
				for _, in := range [][]string{{}, {"I"}} {
					if tier != "thorough" && ne == 3 && len(in) > 0 {
						continue
					}
					orders := c04Orders(c04Parties(ext, in))
					// a held-back subscriber makes another call than next (last invocation of a 2-invocation case)
					for pi, k := range c04Parties(ext, in) {
						for di, dis := range []string{"exiterr", "initerr"} {
							var last []string
							for _, o := range orders {
								if o[len(o)-1] == k+".next" && (last == nil || di == 1) {
									last = o
								}
							}
							add(c04Desc{Ext: ext, Int: in, Distract: dis, Orders: [][]string{orders[(pi*5+di*3)%len(orders)], last}, Mode: []string{modes[di], modes[(pi+di+1)%2]}})
						}
					}
					if tier != "thorough" && len(orders) > 12 {
						// sample: keep each "party last" order plus a few
						keep := map[string][]string{}
						for _, o := range orders {
							keep[o[len(o)-1]+"/"+o[0]] = o
						}
						orders = nil
						var ks []string
						for k := range keep {
							ks = append(ks, k)
						}
						sort.Strings(ks)
						for _, k := range ks {
							orders = append(orders, keep[k])
						}
					}
					for oi := range orders {
						d := c04Desc{Ext: ext, Int: in}
						for k := 0; k < 3; k++ {
							d.Orders = append(d.Orders, orders[(oi+k*7)%len(orders)])
							d.Mode = append(d.Mode, modes[(oi+k)%2])
						}
						add(d)
					}
				}
				return
			}
			for _, s := range subsAll {
				if tier != "thorough" && ne == 3 && i > 0 && s != cur[0] && s != "IS" {
					continue
				}
				assign(i+1, append(cur, s))
			}
		}
		assign(0, nil)
	}
	n := 0
	if tier == "thorough" {
		n = 10000
	}
	for k := 0; k < n; k++ {
		ne, ni := r.Intn(4), r.Intn(3)
		d := c04Desc{}
		for e := 0; e < ne; e++ {
			d.Ext = append(d.Ext, subsAll[r.Intn(4)])
		}
		for i := 0; i < ni; i++ {
			d.Int = append(d.Int, []string{"I", ""}[r.Intn(2)])
		}
		orders := c04Orders(c04Parties(d.Ext, d.Int))
		for j := 0; j < 3+r.Intn(3); j++ {
			d.Orders = append(d.Orders, orders[r.Intn(len(orders))])
			d.Mode = append(d.Mode, modes[r.Intn(2)])
		}
		add(d)
	}
	return cases
}

func runC04(c *Ctx, d c04Desc) {
	ne, ni := len(d.Ext), len(d.Int)
	extNames := []string{}
	for e := 0; e < ne; e++ {
		extNames = append(extNames, fmt.Sprintf("ext%d", e))
	}
	w, err := NewWorld(vh.Config{TimeoutMs: 8000, Extensions: extNames})
	if err != nil {
		c.Inconclusive("harness: " + err.Error())
		return
	}
	defer w.Close()
	pup := func(*vh.Proc) vh.ExecPlan { return vh.ExecPlan{Behave: vh.Puppet{ExitOnTerm: true}.Run} }
	w.RtPlan = func(gen int, p *vh.Proc) vh.ExecPlan { return pup(p) }
	w.ExtPlan = func(base string, gen int, p *vh.Proc) vh.ExecPlan { return pup(p) }
	w.E.Init()

	parties := map[string]*vh.Party{}
	names := map[string]string{}
	subs := map[string]string{}
	pending := map[string]*vh.Async{}
	for e := 0; e < ne; e++ {
		p := w.E.WaitExt(extNames[e], 1, 5*time.Second)
		if p == nil {
			c.Inconclusive("harness: extension not started")
			return
		}
		k := fmt.Sprintf("e%d", e)
		parties[k], names[k], subs[k] = w.Party(p), extNames[e], d.Ext[e]
		if r := parties[k].Register(extNames[e], subsOf(d.Ext[e]), ""); r.Status != 200 {
			c.Inconclusive("harness: register refused")
			return
		}
	}
	rtp := w.E.WaitRuntime(1, 5*time.Second)
	if rtp == nil {
		c.Inconclusive("harness: runtime not started")
		return
	}
	rt := w.Party(rtp)
	for i := 0; i < ni; i++ {
		k := fmt.Sprintf("i%d", i)
		parties[k], names[k], subs[k] = vh.NewParty("ext:internal-"+k, w.E.Addr, w.E.Log, rtp.Ctx), fmt.Sprintf("internal%d", i), d.Int[i]
		if r := parties[k].Register(names[k], subsOf(d.Int[i]), ""); r.Status != 200 {
			c.Inconclusive("harness: internal register refused")
			return
		}
	}
	park := func(k string) {
		pt := parties[k]
		a := vh.Go(func() *vh.Resp { return pt.ExtNext() })
		pending[k] = a
		n := names[k]
		vh.Settle(a, func() bool { return w.E.ExtState(n) == "Ready" }, 3*time.Second)
	}
	var keys []string
	for k := range parties {
		keys = append(keys, k)
	}
	sort.Strings(keys)
	for _, k := range keys {
		park(k)
	}
	rtNext := vh.Go(func() *vh.Resp { return rt.Next() })
	vh.Settle(rtNext, func() bool { return w.E.RuntimeState() == "Ready" }, 3*time.Second)

	arn := "arn:aws:lambda:us-east-1:012345678912:function:c04"
	var callerIDs []string
	perParty := map[string][]string{}
	distractEnd := false
	for i, order := range d.Orders {
		trace := fmt.Sprintf("Root=1-%08x-c04c04c04c04c04c04c04c04;Parent=%016x;Sampled=1", i+1, i+7)
		// the property says "the caller's trace header value": whatever the caller sent,
		// in whatever shape, must reach the extensions verbatim
		switch (i + len(d.Ext) + 2*len(d.Int)) % 7 {
		case 2:
			trace = ""
		case 3: // no Parent, with Lineage
			trace = fmt.Sprintf("Root=1-%08x-c04c04c04c04c04c04c04c04;Sampled=0;Lineage=a87bd80c:1|68fd508a:5", i+1)
		case 4: // reordered fields, no Sampled
			trace = fmt.Sprintf("Parent=%016x;Root=1-%08x-c04c04c04c04c04c04c04c04", i+7, i+1)
		case 5: // no Root at all
			trace = fmt.Sprintf("Parent=%016x;Sampled=1", i+7)
		case 6: // not an X-Ray header at all
			trace = fmt.Sprintf("opaque-trace-value-%d", i)
		}
		inv := w.E.InvokeAsync([]byte(fmt.Sprintf("event-%d", i)), vh.InvokeOpts{ARN: arn, TraceID: trace})
		ev := rtNext.Wait(5 * time.Second)
		if !c.Check(ev != nil && ev.Status == 200, "runtime_served", "C04/runtime-not-served", fmt.Sprintf("runtime did not receive invocation %d", i), nil) {
			c.SetSample(sampleLog(w, 120))
			return
		}
		id := ev.ReqID()
		callerIDs = append(callerIDs, id)
		perParty["rt"] = append(perParty["rt"], id)
		rtDeadline, _ := strconv.ParseInt(ev.Header.Get("Lambda-Runtime-Deadline-Ms"), 10, 64)
		// (a)/(b) fan-out
		for _, k := range keys {
			a := pending[k]
			if strings.Contains(subs[k], "I") {
				r := a.Wait(4 * time.Second)
				if !c.Check(r != nil && r.Status == 200, "subscriber_gets_event", "C04/subscriber-missed", fmt.Sprintf("INVOKE subscriber %s did not receive invocation %d", k, i), nil) {
					continue
				}
				e := parseExtEvent(r.Body)
				perParty[k] = append(perParty[k], e.RequestID)
				c.Check(e.EventType == "INVOKE" && e.RequestID == id, "event_same_id", "C04/event-id", "INVOKE event carries a different request id than the runtime's", []string{e.RequestID, id})
				c.Check(e.InvokedFunctionArn == arn, "event_same_arn", "C04/event-arn", "INVOKE event carries a different ARN", e.InvokedFunctionArn)
				diff := e.DeadlineMs - rtDeadline
				if diff < 0 {
					diff = -diff
				}
				c.Check(diff <= 25, "event_deadline", "C04/event-deadline", fmt.Sprintf("INVOKE event deadline differs from the runtime's by %d ms", diff), nil)
				c.Check(e.Tracing.Value == trace, "event_trace", "C04/event-trace", "INVOKE event does not carry the caller's trace header value", []string{e.Tracing.Value, trace})
			}
		}
		// conduct the completion order
		inflight := map[string]bool{}
		for si, stepName := range order {
			// (c) the invoke call must not have returned before the last step is issued
			if inv.Done() {
				c.Check(false, "no_early_completion", "C04/early-completion/"+stepName, fmt.Sprintf("invocation %d reported complete before %s was issued (order %v)", i, stepName, order), nil)
			} else {
				c.Clause("no_early_completion")
			}
			dot := strings.Index(stepName, ".")
			party, op := stepName[:dot], stepName[dot+1:]
			if d.Distract != "" && i == len(d.Orders)-1 && si == len(order)-1 && party != "rt" {
				// every other party is back at next; this one makes a call that is not next
				var r *vh.Resp
				if d.Distract == "exiterr" {
					r = parties[party].ExtExitError(parties[party].ID(), "Extension.C04Distraction")
					c.Check(r.Status == 202, "distraction_answered", fmt.Sprintf("C04/exit-error-report-status/%d", r.Status), "an exit error report of a running extension was not accepted", nil)
				} else {
					r = parties[party].ExtInitError(parties[party].ID(), "Extension.C04Distraction")
					c.Check(r.Status == 403, "distraction_answered", fmt.Sprintf("C04/late-init-error-report-status/%d", r.Status), "an init error report of a running extension was not refused", nil)
				}
				inv.Wait(150 * time.Millisecond)
				c.Check(!inv.Done(), "non_next_call_is_no_arrival", "C04/early-completion/after-"+d.Distract+"/"+kindOf(party), fmt.Sprintf("invocation %d reported complete after %s made a %s call instead of asking for next (order %v)", i, party, d.Distract, order), nil)
				if d.Distract == "exiterr" {
					// the extension has declared itself failed and will never ask for next: nothing further to conduct
					distractEnd = true
					break
				}
			}
			switch {
			case party == "rt" && op == "respond":
				var r *vh.Resp
				body := []byte(fmt.Sprintf("resp-%d", i))
				if d.Mode[i%len(d.Mode)] == "error" {
					r = rt.Error(id, body, map[string]string{"Lambda-Runtime-Function-Error-Type": "Function.Boom"})
				} else {
					r = rt.Respond(id, body, nil)
				}
				c.Check(r.Status == 202, "response_accepted", fmt.Sprintf("C04/response-status/%d", r.Status), "runtime's response was not accepted", nil)
			case party == "rt" && op == "next":
				rtNext = vh.Go(func() *vh.Resp { return rt.Next() })
				vh.Settle(rtNext, func() bool { return w.E.RuntimeState() == "Ready" }, 3*time.Second)
			default:
				park(party)
				inflight[party] = true
			}
			_ = si
		}
		if distractEnd {
			break
		}
		if !c.Check(inv.Wait(5*time.Second) && inv.Err == nil, "completes_after_all", "C04/never-completes", fmt.Sprintf("invocation %d did not complete after all parties returned to next (order %v): %s", i, order, vh.ErrName(inv.Err)), nil) {
			c.SetSample(sampleLog(w, 150))
			return
		}
		c.Check(bytes.Equal(inv.W.Body(), []byte(fmt.Sprintf("resp-%d", i))), "caller_body", "C04/caller-body", "caller body differs", string(inv.W.Body()))
		// nobody may have been served event i+1 yet (there is none): all pending nexts still parked
		time.Sleep(200 * time.Microsecond)
		for _, k := range keys {
			c.Check(!pending[k].Done(), "no_spurious_event", "C04/spurious-event", fmt.Sprintf("%s received an event although no invocation is in flight", k), nil)
		}
		c.Check(!rtNext.Done(), "no_spurious_event", "C04/spurious-runtime-event", "runtime received an event although no invocation is in flight", nil)
	}
	// (e) per-party id sequences follow the caller order; (b) non-subscribers saw nothing
	for _, k := range append([]string{"rt"}, keys...) {
		if k != "rt" && !strings.Contains(subs[k], "I") {
			c.Check(len(perParty[k]) == 0 && !pending[k].Done(), "non_subscriber_silent", "C04/non-subscriber-event", "extension not subscribed to INVOKE received an event", k)
			continue
		}
		c.Check(strings.Join(perParty[k], ",") == strings.Join(callerIDs, ","), "in_order_exactly_once", "C04/order-or-count/"+kindOf(k), fmt.Sprintf("%s saw request ids %v, callers' order is %v", k, perParty[k], callerIDs), nil)
	}
	var os []string
	for _, o := range d.Orders {
		os = append(os, strings.Join(o, ">"))
	}
	lifecycleOracle(c, w)
	c.SetInterleaving(strings.Join(os, "|"))
	c.SetTrace(fmt.Sprintf("e%v i%v %v ", d.Ext, d.Int, d.Mode)+strings.Join(os, "|"), true)
	if c.WantSample || c.Violated() {
		c.SetSample(sampleLog(w, 100))
	}
}

func kindOf(k string) string {
	switch k[0] {
	case 'e':
		return "external"
	case 'i':
		return "internal"
	}
	return "runtime"
}
