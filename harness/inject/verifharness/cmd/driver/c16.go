package main

import (
	"fmt"
	"io"
	"math/rand"
	"net/http"
	"os"
	"sort"
	"strings"
	"time"

	"go.amzn.com/lambda/rapidcore/env"
	"go.amzn.com/verifharness/vh"
)

// C16 — process environment: reserved values win, extensions get a filtered view.

func init() { register("C16", genC16) }

type c16Desc struct {
	Kind string `json:"kind"` // builder | stack | port0
	N    int    `json:"n"`
	Salt string `json:"salt"`
}

func genC16(tier string, seed int64) []Case {
	var cases []Case
	add := func(d c16Desc) {
		cases = append(cases, Case{ID: fmt.Sprintf("C16/%s/%s", d.Kind, d.Salt), Class: d.Kind, Desc: d, Timeout: 300 * time.Second, Run: func(c *Ctx) { runC16(c, d) }})
	}
	nb, per, ns, pers := 8, 60, 8, 6
	if tier == "thorough" {
		nb, per, ns, pers = 64, 300, 64, 12
	}
	for i := 0; i < nb; i++ {
		add(c16Desc{Kind: "builder", N: per, Salt: fmt.Sprintf("%d-%d", seed, i)})
	}
	for i := 0; i < ns; i++ {
		add(c16Desc{Kind: "stack", N: pers, Salt: fmt.Sprintf("%d-%d", seed, i)})
	}
	add(c16Desc{Kind: "port0", N: 1, Salt: "default-port-selection"})
	return cases
}

var (
	c16Platform   = []string{"AWS_REGION", "AWS_DEFAULT_REGION", "AWS_LAMBDA_FUNCTION_NAME", "AWS_LAMBDA_FUNCTION_MEMORY_SIZE", "AWS_LAMBDA_FUNCTION_VERSION", "AWS_LAMBDA_RUNTIME_API", "TZ"}
	c16Runtime    = []string{"_HANDLER", "AWS_EXECUTION_ENV", "AWS_LAMBDA_LOG_GROUP_NAME", "AWS_LAMBDA_LOG_STREAM_NAME", "LAMBDA_TASK_ROOT", "LAMBDA_RUNTIME_DIR"}
	c16Unreserved = []string{"AWS_XRAY_DAEMON_ADDRESS"}
	c16Creds      = []string{"AWS_ACCESS_KEY_ID", "AWS_SECRET_ACCESS_KEY", "AWS_SESSION_TOKEN"}
	c16SnapCreds  = []string{"AWS_CONTAINER_CREDENTIALS_FULL_URI", "AWS_CONTAINER_AUTHORIZATION_TOKEN"}
	c16Excluded   = []string{"AWS_XRAY_CONTEXT_MISSING", "_AWS_XRAY_DAEMON_ADDRESS", "_AWS_XRAY_DAEMON_PORT", "_LAMBDA_TELEMETRY_LOG_FD"}
	c16Internal   = []string{"_LAMBDA_SB_ID", "_LAMBDA_LOG_FD", "_X_AMZN_TRACE_ID", "_LAMBDA_TELEMETRY_API_PASSPHRASE"}
)

type c16Cfg struct {
	ProcEnv              map[string]string // what the emulator process itself has in its environment for the documented key lists
	Customer             map[string]string
	Handler              string
	BuilderHandler       string
	FuncName             string
	FuncVer              string
	Key, Secret, Session string
	Snapshot             bool
}

func hostileValue(r *rand.Rand) string {
	switch r.Intn(9) {
	case 0:
		return ""
	case 1:
		return "a=b=c"
	case 2:
		return "=leading"
	case 3:
		return "line1\nline2"
	case 4:
		return "ünïcødé ✓"
	case 5:
		return strings.Repeat("v", 65536)
	case 6:
		return " spaces around "
	}
	return fmt.Sprintf("val-%d", r.Intn(1000000))
}

func genC16Cfg(r *rand.Rand) c16Cfg {
	cfg := c16Cfg{ProcEnv: map[string]string{}, Customer: map[string]string{}}
	all := [][]string{c16Platform, c16Runtime, c16Unreserved}
	for _, keys := range all {
		for _, k := range keys {
			if r.Intn(2) == 0 {
				cfg.ProcEnv[k] = "proc-" + k + fmt.Sprint(r.Intn(100))
			}
		}
	}
	// customer map: every reserved class collides with good probability, plus ordinary and underscore keys
	pool := [][]string{c16Platform, c16Runtime, c16Unreserved, c16Creds, c16SnapCreds, c16Excluded, c16Internal}
	for _, keys := range pool {
		for _, k := range keys {
			if r.Intn(3) > 0 {
				cfg.Customer[k] = "cust-" + hostileValue(r)
			}
		}
	}
	for i := r.Intn(6); i > 0; i-- {
		cfg.Customer[fmt.Sprintf("MY_VAR_%d", r.Intn(50))] = hostileValue(r)
	}
	for i := r.Intn(3); i > 0; i-- {
		cfg.Customer[fmt.Sprintf("_PRIVATE_%d", r.Intn(50))] = hostileValue(r)
	}
	if r.Intn(4) == 0 {
		cfg.Customer["lower_case"] = "x"
		cfg.Customer["AWS_LAMBDA_RUNTIME_API_"] = "near-miss"
		cfg.Customer["XAWS_REGION"] = "near-miss"
	}
	if r.Intn(2) == 0 {
		cfg.Handler = fmt.Sprintf("init.handler%d", r.Intn(10))
	}
	if r.Intn(3) == 0 {
		cfg.BuilderHandler = fmt.Sprintf("builder.handler%d", r.Intn(10))
	}
	if r.Intn(3) > 0 {
		cfg.FuncName = fmt.Sprintf("fn%d", r.Intn(10))
	}
	if r.Intn(3) > 0 {
		cfg.FuncVer = fmt.Sprintf("%d", r.Intn(10))
	}
	if r.Intn(3) > 0 {
		cfg.Key, cfg.Secret, cfg.Session = "AKIA"+fmt.Sprint(r.Intn(1000)), "secret=with=eq", "session\ttoken"
	}
	cfg.Snapshot = r.Intn(3) == 0
	return cfg
}

func union(ms ...map[string]string) map[string]string {
	res := map[string]string{}
	for _, m := range ms {
		for k, v := range m {
			res[k] = v
		}
	}
	return res
}

// specEnv is the independent specification of both views.
func specEnv(cfg c16Cfg, apiAddr string, snapToken string, snapURI string) (rt, ext map[string]string) {
	sub := func(keys []string) map[string]string {
		m := map[string]string{}
		for _, k := range keys {
			if v, ok := cfg.ProcEnv[k]; ok {
				m[k] = v
			}
		}
		return m
	}
	platform := sub(c16Platform)
	runtime := sub(c16Runtime)
	unreserved := sub(c16Unreserved)
	creds := map[string]string{}
	if cfg.Snapshot {
		creds["AWS_CONTAINER_CREDENTIALS_FULL_URI"] = snapURI
		creds["AWS_CONTAINER_AUTHORIZATION_TOKEN"] = snapToken
	} else {
		creds["AWS_ACCESS_KEY_ID"], creds["AWS_SECRET_ACCESS_KEY"], creds["AWS_SESSION_TOKEN"] = cfg.Key, cfg.Secret, cfg.Session
	}
	if cfg.BuilderHandler != "" {
		runtime["_HANDLER"] = cfg.BuilderHandler
	}
	if cfg.Handler != "" {
		runtime["_HANDLER"] = cfg.Handler
	}
	if cfg.FuncName != "" {
		platform["AWS_LAMBDA_FUNCTION_NAME"] = cfg.FuncName
	}
	if cfg.FuncVer != "" {
		platform["AWS_LAMBDA_FUNCTION_VERSION"] = cfg.FuncVer
	}
	platform["AWS_LAMBDA_RUNTIME_API"] = apiAddr
	rt = union(cfg.Customer, unreserved, creds, runtime, platform)
	ext = map[string]string{}
	excl := map[string]bool{}
	for _, k := range c16Excluded {
		excl[k] = true
	}
	for k, v := range union(cfg.Customer, creds, platform) {
		if strings.HasPrefix(k, "_") || excl[k] {
			continue
		}
		ext[k] = v
	}
	return
}

func applyProcEnv(cfg c16Cfg) {
	for _, keys := range [][]string{c16Platform, c16Runtime, c16Unreserved, c16Creds, c16Internal, c16Excluded, c16SnapCreds} {
		for _, k := range keys {
			os.Unsetenv(k)
		}
	}
	for k, v := range cfg.ProcEnv {
		os.Setenv(k, v)
	}
}

func diffMaps(got, want map[string]string) []string {
	var d []string
	for k, v := range want {
		g, ok := got[k]
		if !ok {
			d = append(d, "missing "+k)
		} else if g != v {
			d = append(d, fmt.Sprintf("%s=%q want %q", k, truncS(g, 40), truncS(v, 40)))
		}
	}
	for k := range got {
		if _, ok := want[k]; !ok {
			d = append(d, "extra "+k)
		}
	}
	sort.Strings(d)
	return d
}

func classifyDiff(d []string, customer map[string]string) string {
	if len(d) == 0 {
		return ""
	}
	// name the first differing key class
	k := strings.Fields(d[0])
	key := k[len(k)-1]
	if i := strings.Index(d[0], "="); i > 0 && !strings.HasPrefix(d[0], "missing") && !strings.HasPrefix(d[0], "extra") {
		key = d[0][:i]
	}
	for name, keys := range map[string][]string{"platform": c16Platform, "runtime": c16Runtime, "unreserved": c16Unreserved, "credentials": append(c16Creds, c16SnapCreds...), "excluded": c16Excluded} {
		for _, x := range keys {
			if x == key {
				return name
			}
		}
	}
	if strings.HasPrefix(key, "_") {
		return "underscore"
	}
	return "customer"
}

func runC16(c *Ctx, d c16Desc) {
	r := rng(c.Seed, "c16"+d.Salt)
	switch d.Kind {
	case "builder":
		n := 0
		for i := 0; i < d.N && !c.Violated(); i++ {
			cfg := genC16Cfg(r)
			applyProcEnv(cfg)
			e := env.NewEnvironment()
			addr := fmt.Sprintf("127.0.0.1:%d", 9000+r.Intn(100))
			if cfg.BuilderHandler != "" {
				e.SetHandler(cfg.BuilderHandler)
			}
			e.StoreRuntimeAPIEnvironmentVariable(addr)
			tok, uri := "tok-123", "http://127.0.0.1:9001/2021-04-23/credentials"
			cust := map[string]string{}
			for k, v := range cfg.Customer {
				cust[k] = v
			}
			if cfg.Snapshot {
				e.StoreEnvironmentVariablesFromInitForInitCaching("127.0.0.1", 9001, cust, cfg.Handler, cfg.FuncName, cfg.FuncVer, tok)
			} else {
				e.StoreEnvironmentVariablesFromInit(cust, cfg.Handler, cfg.Key, cfg.Secret, cfg.Session, cfg.FuncName, cfg.FuncVer)
			}
			wantRt, wantExt := specEnv(cfg, addr, tok, uri)
			dr := diffMaps(e.RuntimeExecEnv(), wantRt)
			c.Check(len(dr) == 0, "runtime_env_layering", "C16/runtime-env/"+classifyDiff(dr, cfg.Customer), fmt.Sprintf("runtime environment differs from the specification: %v", dr[:min(len(dr), 6)]), nil)
			de := diffMaps(e.AgentExecEnv(), wantExt)
			c.Check(len(de) == 0, "extension_env_filtered", "C16/extension-env/"+classifyDiff(de, cfg.Customer), fmt.Sprintf("extension environment differs from the specification: %v", de[:min(len(de), 6)]), nil)
			for k, v := range cfg.Customer {
				if strings.Contains(v, "=") {
					if _, shadowed := wantRt[k]; shadowed && wantRt[k] == v {
						c.Check(e.RuntimeExecEnv()[k] == v, "values_with_equals_intact", "C16/value-with-equals", "a value containing '=' was altered", k)
					}
				}
			}
			n++
		}
		c.Counter("configurations", n)
		c.SetTrace("builder"+d.Salt, true)
		c.SetSample(map[string]interface{}{"configurations": n})
	case "stack":
		n := 0
		for i := 0; i < d.N && !c.Violated(); i++ {
			cfg := genC16Cfg(r)
			applyProcEnv(cfg)
			w, err := NewWorld(vh.Config{TimeoutMs: 10000, Extensions: []string{"envext"}, Snapshot: cfg.Snapshot, Handler: cfg.Handler, BuilderHandler: cfg.BuilderHandler,
				CustomerEnv: cfg.Customer, FunctionName: ifEmpty(cfg.FuncName, "-"), FunctionVersion: ifEmpty(cfg.FuncVer, "-"), AwsKey: cfg.Key, AwsSecret: cfg.Secret, AwsSession: cfg.Session})
			if err != nil {
				c.Inconclusive("harness: " + err.Error())
				return
			}
			w.E.Init()
			rtp := w.E.WaitRuntime(1, 5*time.Second)
			ep := w.E.WaitExt("envext", 1, 5*time.Second)
			if rtp == nil || ep == nil {
				c.Check(false, "processes_started", "C16/processes-not-started", "runtime / extension were not started", nil)
				w.Close()
				return
			}
			// snapshot mode: token and URI are generated by the platform; take them from the observed env and check their shape
			tok, uri := rtp.Env["AWS_CONTAINER_AUTHORIZATION_TOKEN"], rtp.Env["AWS_CONTAINER_CREDENTIALS_FULL_URI"]
			if cfg.Snapshot {
				c.Check(tok != "" && uri == "http://"+w.E.Addr+"/2021-04-23/credentials", "snapshot_credentials_uri", "C16/snapshot-credentials-uri", "credentials URI does not point at the Runtime API address", uri)
			}
			wantRt, wantExt := specEnv(cfg, w.E.Addr, tok, uri)
			dr := diffMaps(rtp.Env, wantRt)
			c.Check(len(dr) == 0, "runtime_exec_env", "C16/stack-runtime-env/"+classifyDiff(dr, cfg.Customer), fmt.Sprintf("Env of the runtime Exec request differs from the specification: %v", dr[:min(len(dr), 6)]), nil)
			de := diffMaps(ep.Env, wantExt)
			c.Check(len(de) == 0, "extension_exec_env", "C16/stack-extension-env/"+classifyDiff(de, cfg.Customer), fmt.Sprintf("Env of the extension Exec request differs from the specification: %v", de[:min(len(de), 6)]), nil)
			c.Check(rtp.Env["AWS_LAMBDA_RUNTIME_API"] == ep.Env["AWS_LAMBDA_RUNTIME_API"], "same_api_address", "C16/api-address-differs", "runtime and extension got different Runtime API addresses", nil)
			c.Check(pingAPI(rtp.Env["AWS_LAMBDA_RUNTIME_API"]), "api_address_listening", "C16/api-address-not-listening", "nothing answers at the Runtime API address placed in the environment", rtp.Env["AWS_LAMBDA_RUNTIME_API"])
			w.Close()
			n++
		}
		c.Counter("configurations", n)
		c.SetTrace("stack"+d.Salt, true)
		c.SetSample(map[string]interface{}{"configurations": n})
	case "port0":
		// documented in rapi.NewServer: "When port is 0, OS will dynamically allocate the listening port"
		cfg := c16Cfg{ProcEnv: map[string]string{}, Customer: map[string]string{}}
		applyProcEnv(cfg)
		w, err := NewWorld(vh.Config{TimeoutMs: 3000, Port: -1})
		if err != nil {
			c.Inconclusive("harness: " + err.Error())
			return
		}
		defer w.Close()
		w.RtPlan = func(gen int, p *vh.Proc) vh.ExecPlan { return vh.ExecPlan{Behave: vh.Puppet{ExitOnTerm: true}.Run} }
		w.E.Init()
		rtp := w.E.WaitRuntime(1, 5*time.Second)
		if rtp == nil {
			c.Inconclusive("runtime not started")
			return
		}
		addr := rtp.Env["AWS_LAMBDA_RUNTIME_API"]
		c.Check(pingAPI(addr), "api_address_listening_port0", "C16/api-address-not-listening/port0", fmt.Sprintf("configured with port 0 (OS-assigned): the environment says AWS_LAMBDA_RUNTIME_API=%s, where nothing listens", addr), nil)
		c.SetTrace("port0", true)
		c.SetSample(map[string]string{"AWS_LAMBDA_RUNTIME_API": addr})
	}
}

func ifEmpty(s, d string) string {
	if s == "" {
		return d
	}
	return s
}

func pingAPI(addr string) bool {
	if addr == "" || strings.HasSuffix(addr, ":0") {
		return false
	}
	cl := &http.Client{Timeout: 2 * time.Second}
	resp, err := cl.Get("http://" + addr + "/2018-06-01/ping")
	if err != nil {
		return false
	}
	defer resp.Body.Close()
	io.ReadAll(resp.Body)
	return resp.StatusCode == 200
}
