package main

import (
	"bytes"
	"context"
	"encoding/json"
	"fmt"
	"math/rand"
	"net"
	"strings"
	"sync"
	"syscall"
	"time"

	"go.amzn.com/verifharness/vh"
)

// C07 — no client behaviour can wedge or crash the emulator.
// Generated programs over the full Runtime / Extensions API alphabet
// (including misuse), several faulty generations followed by healthy ones,
// random delays at the pause points. Crash = the hosting driver process dies
// (detected by the orchestrator); wedge = watchdog.

func init() { register("C07", genC07) }

type c07Desc struct {
	Salt    string         `json:"salt"`
	NExt    int            `json:"extensions"`
	Faulty  int            `json:"faulty_generations"`
	Rt      [][]string     `json:"runtime_programs"`
	Ext     [][][]string   `json:"extension_programs"` // per extension, per faulty generation
	Delays  map[string]int `json:"hook_delay_ms"`
	T       int64          `json:"timeout_ms"`
	Subs    []string       `json:"healthy_subscriptions,omitempty"` // per extension: what it subscribes to once it behaves ("IS" default, "I", "S", "-" = nothing)
	EventKB int            `json:"event_kib,omitempty"`             // pad every event to this size (needed by the step next-noread)
}

var c07RtSteps = []string{"next", "next", "next", "respond", "respond", "respond-stale", "respond-garbage", "respond-twice", "respond-oversize", "error", "error-badtype", "initerror", "restorenext", "two-next", "half-body", "half-body-stall", "unknown-route", "bad-method", "ext-register", "stall", "short-stall", "exit0", "exit1", "sigsegv", "ignore-term", "idle-exit"}
var c07ExtSteps = []string{"register", "register", "register-bad", "register-twice", "next", "next", "next-badid", "next-noid", "initerror", "exiterror", "rt-next", "rt-respond", "stall", "short-stall", "exit0", "exit1", "sigkill", "ignore-term", "unknown-route"}

func genC07(tier string, seed int64) []Case {
	var cases []Case
	n := 150
	if tier == "thorough" {
		n = 2500
	}
	r := rng(seed, "C07")
	for i := 0; i < n; i++ {
		d := c07Desc{Salt: fmt.Sprintf("%d-%d", seed, i), NExt: r.Intn(3), Faulty: 3, T: 300, Delays: map[string]int{}}
		for g := 0; g < d.Faulty; g++ {
			var prog []string
			for k := 3 + r.Intn(10); k > 0; k-- {
				prog = append(prog, c07RtSteps[r.Intn(len(c07RtSteps))])
			}
			d.Rt = append(d.Rt, prog)
		}
		for e := 0; e < d.NExt; e++ {
			var per [][]string
			for g := 0; g < d.Faulty; g++ {
				var prog []string
				for k := 3 + r.Intn(8); k > 0; k-- {
					prog = append(prog, c07ExtSteps[r.Intn(len(c07ExtSteps))])
				}
				per = append(per, prog)
			}
			d.Ext = append(d.Ext, per)
		}
		for _, h := range []string{"watchEvents.exitRecorded", "fastInvoke.failureSeen", "handleReset.flowsCancelled", "exec.beforeExitChannel", "invoke.timeoutFired", "invoke.releaseFailed", "watchEvents.received"} {
			if r.Intn(3) == 0 {
				d.Delays[h] = r.Intn(21)
			}
		}
		dd := d
		cases = append(cases, Case{ID: "C07/" + d.Salt, Class: fmt.Sprintf("n%d", d.NExt), Desc: d, Timeout: 150 * time.Second, Run: func(c *Ctx) { runC07(c, dd) }})
	}
	// a process that finishes its invocation, parks in next and dies while the environment is idle
	for i, progs := range [][][]string{
		{{"next", "idle-exit"}, {"next", "respond"}, {"next", "respond"}},
		{{"next", "respond", "next", "idle-exit"}, {"next", "idle-exit"}, {"next", "respond"}},
	} {
		d := c07Desc{Salt: fmt.Sprintf("idle-exit-%d", i), NExt: i, Faulty: 3, T: 300, Delays: map[string]int{}, Rt: progs}
		for e := 0; e < d.NExt; e++ {
			d.Ext = append(d.Ext, [][]string{{"register", "next", "next", "next"}, {"register", "next", "next"}, {"register", "next", "next"}})
		}
		dd := d
		cases = append(cases, Case{ID: "C07/" + d.Salt, Class: "idle-exit", Desc: d, Timeout: 150 * time.Second, Run: func(c *Ctx) { runC07(c, dd) }})
	}
	// healthy extensions that are not subscribed to INVOKE (or to nothing): service is normal all the same
	for i, subs := range [][]string{{"S"}, {"-", "IS"}, {"S", "I"}, {"-"}} {
		d := c07Desc{Salt: fmt.Sprintf("subs-%d", i), NExt: len(subs), Faulty: 1, T: 400, Delays: map[string]int{}, Rt: [][]string{{"next", "exit1"}}, Subs: subs}
		for e := 0; e < d.NExt; e++ {
			d.Ext = append(d.Ext, [][]string{{}})
		}
		dd := d
		cases = append(cases, Case{ID: "C07/" + d.Salt, Class: "subs", Desc: d, Timeout: 150 * time.Second, Run: func(c *Ctx) { runC07(c, dd) }})
	}
	// a runtime whose init error report is larger than the response size limit, and that then exits / stalls / goes on
	for i, progs := range [][][]string{
		{{"initerror-huge", "exit1"}, {"next", "respond"}, {"next", "respond"}},
		{{"initerror-huge", "stall"}, {"initerror-huge", "exit0"}, {"next", "respond"}},
		{{"next", "respond", "next", "exit1"}, {"initerror-huge", "exit1"}, {"next", "respond"}},
	} {
		d := c07Desc{Salt: fmt.Sprintf("initerror-huge-%d", i), NExt: i % 2, Faulty: 3, T: 1500, Delays: map[string]int{}, Rt: progs}
		for e := 0; e < d.NExt; e++ {
			d.Ext = append(d.Ext, [][]string{{"register", "next", "next"}, {"register", "next", "next"}, {"register", "next", "next"}})
		}
		dd := d
		cases = append(cases, Case{ID: "C07/" + d.Salt, Class: "initerror-huge", Desc: d, Timeout: 200 * time.Second, Run: func(c *Ctx) { runC07(c, dd) }})
	}
	// the runtime dies just before the timeout expires and the goroutine that reports the failed invocation loses the
	// CPU until the timeout has fired and its reset has released the reservation: the late report has nobody to go to
	for i, nap := range []string{"nap-60-before-expiry", "nap-15-before-expiry"} {
		for j, exit := range []string{"exit1", "sigsegv"} {
			d := c07Desc{Salt: fmt.Sprintf("late-failure-%d", i*2+j), NExt: j, Faulty: 2, T: 300, Delays: map[string]int{"fastInvoke.failureSeen": 500},
				Rt: [][]string{{"next", nap, exit}, {"next", nap, exit}}}
			for e := 0; e < d.NExt; e++ {
				d.Ext = append(d.Ext, [][]string{{"register", "next", "next"}, {"register", "next", "next"}})
			}
			dd := d
			cases = append(cases, Case{ID: "C07/" + d.Salt, Class: "late-failure", Desc: d, Timeout: 150 * time.Second, Run: func(c *Ctx) { runC07(c, dd) }})
		}
	}
	// a client that asks for the (large) event again on a second connection and never reads the answer
	for i, progs := range [][][]string{
		{{"next", "next-noread", "stall"}, {"next", "respond"}, {"next", "respond"}},
		{{"next", "next-noread", "respond", "next", "respond"}, {"next", "respond"}, {"next", "respond"}},
		{{"next", "next-noread", "exit1"}, {"next", "next-noread", "respond", "next", "respond"}, {"next", "respond"}},
	} {
		d := c07Desc{Salt: fmt.Sprintf("noread-%d", i), NExt: i % 2, Faulty: 3, T: 1500, Delays: map[string]int{}, Rt: progs, EventKB: 6100}
		for e := 0; e < d.NExt; e++ {
			d.Ext = append(d.Ext, [][]string{{"register", "next", "next"}, {"register", "next", "next"}, {"register", "next", "next"}})
		}
		dd := d
		cases = append(cases, Case{ID: "C07/" + d.Salt, Class: "noread", Desc: d, Timeout: 200 * time.Second, Run: func(c *Ctx) { runC07(c, dd) }})
	}
	return cases
}

// rawNoRead sends a GET on a fresh connection whose receive window is tiny and never reads the answer; the
// connection is closed when the owning process dies.
func rawNoRead(ctx context.Context, addr, path string) {
	d := net.Dialer{Timeout: time.Second, Control: func(network, address string, rc syscall.RawConn) error {
		return rc.Control(func(fd uintptr) { syscall.SetsockoptInt(int(fd), syscall.SOL_SOCKET, syscall.SO_RCVBUF, 2048) })
	}}
	conn, err := d.Dial("tcp", addr)
	if err != nil {
		return
	}
	fmt.Fprintf(conn, "GET %s HTTP/1.1\r\nHost: x\r\n\r\n", path)
	go func() {
		<-ctx.Done()
		conn.Close()
	}()
}

func rawHalfBody(addr, path string) {
	conn, err := net.DialTimeout("tcp", addr, time.Second)
	if err != nil {
		return
	}
	fmt.Fprintf(conn, "POST %s HTTP/1.1\r\nHost: x\r\nContent-Length: 1000\r\nContent-Type: application/json\r\n\r\n{\"partial\":", path)
	time.Sleep(2 * time.Millisecond)
	conn.Close()
}

func runC07(c *Ctx, d c07Desc) {
	exts := []string{}
	for i := 0; i < d.NExt; i++ {
		exts = append(exts, fmt.Sprintf("ext%d", i))
	}
	w, err := NewWorld(vh.Config{TimeoutMs: d.T, Extensions: exts})
	if err != nil {
		c.Inconclusive("harness: " + err.Error())
		return
	}
	defer w.Close()
	maxDelay := 0
	for k, v := range d.Delays {
		w.Hk.Delay(k, time.Duration(v)*time.Millisecond)
		if v > maxDelay {
			maxDelay = v
		}
	}
	if maxDelay > 100 {
		// a goroutine held that long may still be on its way when the last invocation is over: whatever it does
		// (a crash included) belongs to this case
		defer func() { time.Sleep(time.Duration(maxDelay+200) * time.Millisecond) }()
	}
	var mu sync.Mutex
	rtOrd := 0
	extOrd := map[string]int{}
	posted := map[string][][]byte{} // request id -> bodies posted by anybody
	initErrs := [][]byte{}
	faultyProcs := map[string]bool{}
	lastFaultSeq := int64(0)
	post := func(id string, b []byte) {
		mu.Lock()
		posted[id] = append(posted[id], b)
		mu.Unlock()
	}
	fault := func(p *vh.Proc, what string) {
		s := w.E.Log.Add(vh.Event{Src: "drv", Kind: "note", Op: "faulty-step:" + what, Extra: map[string]string{"proc": p.Name}})
		mu.Lock()
		if s > lastFaultSeq {
			lastFaultSeq = s
		}
		mu.Unlock()
	}
	// a stray request issued by a faulty step (a second concurrent next, an extension asking for the runtime's
	// event) is misbehaviour for as long as it is outstanding: the process "behaves correctly again" only
	// once the request has come back
	strayOpen := 0
	stray := func(f func() *vh.Resp) {
		mu.Lock()
		strayOpen++
		mu.Unlock()
		go func() {
			r := f()
			mu.Lock()
			strayOpen--
			if r != nil && r.RetSeq > lastFaultSeq {
				lastFaultSeq = r.RetSeq
			}
			mu.Unlock()
		}()
	}
	staleID := "11111111-2222-3333-4444-555555555555"
	healthyRt := func(p *vh.Proc, pt *vh.Party) vh.Exit {
		for {
			ev := pt.Next()
			if ev.Err != nil || ev.Status != 200 || p.Ctx.Err() != nil {
				<-p.Ctx.Done()
				return vh.Exit{Signal: 9}
			}
			b := EchoBody(ev.Body)
			post(ev.ReqID(), b)
			pt.Respond(ev.ReqID(), b, nil)
		}
	}
	w.RtPlan = func(gen int, p *vh.Proc) vh.ExecPlan {
		mu.Lock()
		k := rtOrd
		rtOrd++
		mu.Unlock()
		if k >= len(d.Rt) {
			return vh.ExecPlan{Behave: func(p *vh.Proc) vh.Exit {
				res := make(chan vh.Exit, 1)
				go func() { res <- healthyRt(p, w.Party(p)) }()
				select {
				case e := <-res:
					return e
				case <-p.Ctx.Done():
					return vh.Exit{Signal: 9}
				case <-p.Term:
					return vh.Exit{Code: 0}
				}
			}}
		}
		prog := d.Rt[k]
		mu.Lock()
		faultyProcs[p.Name] = true
		mu.Unlock()
		return vh.ExecPlan{Behave: func(p *vh.Proc) vh.Exit {
			pt := w.Party(p)
			res := make(chan vh.Exit, 1)
			ignoreTerm := false
			for _, s := range prog {
				if s == "ignore-term" {
					ignoreTerm = true
				}
			}
			go func() {
				cur := ""
				for _, s := range prog {
					if p.Ctx.Err() != nil {
						return
					}
					switch s {
					case "next":
						ev := pt.Next()
						if ev.Status == 200 {
							cur = ev.ReqID()
						}
					case "respond":
						if cur != "" {
							b := []byte("resp-from-faulty-" + p.Name)
							post(cur, b)
							pt.Respond(cur, b, nil)
						} else {
							fault(p, s)
							pt.Respond(staleID, []byte("x"), nil)
						}
					case "idle-exit":
						// finish the current invocation properly, park in next, and die while the environment is idle
						if cur != "" {
							b := []byte("resp-from-faulty-" + p.Name)
							post(cur, b)
							pt.Respond(cur, b, nil)
							cur = ""
						}
						go pt.Next()
						for dl := time.Now().Add(2 * time.Second); time.Now().Before(dl) && w.E.RuntimeState() != "Ready" && p.Ctx.Err() == nil; {
							time.Sleep(200 * time.Microsecond)
						}
						time.Sleep(15 * time.Millisecond)
						fault(p, s)
						res <- vh.Exit{Code: 1}
						return
					case "respond-stale":
						fault(p, s)
						pt.Respond(staleID, []byte("stale"), nil)
					case "respond-garbage":
						fault(p, s)
						pt.Respond("%20not%20an%20id", []byte("garbage"), map[string]string{"Lambda-Runtime-Function-Response-Mode": "bogus"})
					case "respond-twice":
						if cur != "" {
							b := []byte("twice-1-" + p.Name)
							post(cur, b)
							post(cur, []byte("twice-2"))
							pt.Respond(cur, b, nil)
							fault(p, s)
							pt.Respond(cur, []byte("twice-2"), nil)
						}
					case "respond-oversize":
						if cur != "" {
							fault(p, s)
							pt.Respond(cur, make([]byte, maxPayload+1), nil)
						}
					case "error":
						if cur != "" {
							b := []byte(`{"errorMessage":"from ` + p.Name + `"}`)
							post(cur, b)
							pt.Error(cur, b, map[string]string{"Lambda-Runtime-Function-Error-Type": "Function.Bad"})
						}
					case "error-badtype":
						if cur != "" {
							b := []byte(`not json at all`)
							post(cur, b)
							fault(p, s)
							pt.Error(cur, b, map[string]string{"Lambda-Runtime-Function-Error-Type": "evil\ttype", "Lambda-Runtime-Function-XRay-Error-Cause": "{broken"})
						}
					case "initerror":
						b := []byte(`{"errorMessage":"init error from ` + p.Name + `"}`)
						mu.Lock()
						initErrs = append(initErrs, b)
						mu.Unlock()
						fault(p, s)
						pt.InitError(b, map[string]string{"Lambda-Runtime-Function-Error-Type": "Runtime.Init"})
					case "initerror-huge":
						// an init error report whose body is larger than the response size limit
						b := append([]byte(`{"errorType":"Runtime.HugeInit","errorMessage":"`), bytes.Repeat([]byte("x"), 7<<20)...)
						b = append(b, '"', '}')
						mu.Lock()
						initErrs = append(initErrs, b)
						mu.Unlock()
						fault(p, s)
						pt.InitError(b, map[string]string{"Lambda-Runtime-Function-Error-Type": "Runtime.HugeInit"})
					case "restorenext":
						fault(p, s)
						pt.RestoreNext()
					case "two-next":
						fault(p, s)
						p2 := vh.NewParty(pt.Src+"#2", w.E.Addr, w.E.Log, p.Ctx)
						stray(p2.Next)
						time.Sleep(time.Millisecond)
					case "half-body":
						fault(p, s)
						id := cur
						if id == "" {
							id = staleID
						}
						rawHalfBody(w.E.Addr, "/2018-06-01/runtime/invocation/"+id+"/response")
					case "next-noread":
						fault(p, s)
						rawNoRead(p.Ctx, w.E.Addr, "/2018-06-01/runtime/invocation/next")
						time.Sleep(20 * time.Millisecond)
					case "half-body-stall":
						// a legal response for the current id whose upload stops half-way and stays open until the process dies
						fault(p, s)
						id := cur
						if id == "" {
							id = staleID
						}
						if conn, err := net.DialTimeout("tcp", w.E.Addr, time.Second); err == nil {
							fmt.Fprintf(conn, "POST /2018-06-01/runtime/invocation/%s/response HTTP/1.1\r\nHost: x\r\nContent-Length: 1000\r\nContent-Type: application/json\r\n\r\n{\"partial\":", id)
							go func() {
								<-p.Ctx.Done()
								conn.Close()
							}()
						}
						<-p.Ctx.Done()
						return
					case "unknown-route":
						pt.Call("unknown", "PUT", "/2018-06-01/runtime/whatever", nil, []byte("x"))
					case "bad-method":
						pt.Call("badmethod", "DELETE", "/2018-06-01/runtime/invocation/next", nil, nil)
					case "ext-register":
						fault(p, s)
						pt.Register("rogue-internal", []string{"INVOKE"}, "")
					case "stall":
						fault(p, s)
						<-p.Ctx.Done()
						return
					case "short-stall":
						p.Sleep(30 * time.Millisecond)
					case "nap-60-before-expiry", "nap-15-before-expiry":
						// the process dies just before the function timeout expires
						ms := int64(60)
						if s == "nap-15-before-expiry" {
							ms = 15
						}
						p.Sleep(time.Duration(d.T-ms) * time.Millisecond)
					case "exit0":
						fault(p, s)
						res <- vh.Exit{Code: 0}
						return
					case "exit1":
						fault(p, s)
						res <- vh.Exit{Code: 1}
						return
					case "sigsegv":
						fault(p, s)
						res <- vh.Exit{Signal: 11}
						return
					}
				}
				// program finished: behave from now on
				res <- healthyRt(p, pt)
			}()
			term := p.Term
			if ignoreTerm {
				term = nil
			}
			select {
			case e := <-res:
				return e
			case <-p.Ctx.Done():
				return vh.Exit{Signal: 9}
			case <-term:
				return vh.Exit{Code: 0}
			}
		}}
	}
	healthyExt := func(p *vh.Proc, pt *vh.Party, registered bool) vh.Exit {
		if !registered {
			subs := []string{"INVOKE", "SHUTDOWN"}
			var idx int
			fmt.Sscanf(p.Base, "ext%d", &idx)
			if idx < len(d.Subs) {
				subs = subsOf(d.Subs[idx])
			}
			if r := pt.Register(p.Base, subs, ""); r.Status != 200 {
				<-p.Ctx.Done()
				return vh.Exit{Signal: 9}
			}
		}
		for {
			ev := pt.ExtNext()
			if ev.Err != nil || ev.Status != 200 || p.Ctx.Err() != nil {
				<-p.Ctx.Done()
				return vh.Exit{Signal: 9}
			}
			if parseExtEvent(ev.Body).EventType == "SHUTDOWN" {
				return vh.Exit{Code: 0}
			}
		}
	}
	w.ExtPlan = func(base string, gen int, p *vh.Proc) vh.ExecPlan {
		var idx int
		fmt.Sscanf(base, "ext%d", &idx)
		mu.Lock()
		k := extOrd[base]
		extOrd[base]++
		mu.Unlock()
		if idx >= len(d.Ext) || k >= len(d.Ext[idx]) {
			return vh.ExecPlan{Behave: func(p *vh.Proc) vh.Exit {
				res := make(chan vh.Exit, 1)
				go func() { res <- healthyExt(p, w.Party(p), false) }()
				select {
				case e := <-res:
					return e
				case <-p.Ctx.Done():
					return vh.Exit{Signal: 9}
				}
			}}
		}
		prog := d.Ext[idx][k]
		mu.Lock()
		faultyProcs[p.Name] = true
		mu.Unlock()
		return vh.ExecPlan{Behave: func(p *vh.Proc) vh.Exit {
			pt := w.Party(p)
			res := make(chan vh.Exit, 1)
			go func() {
				registered := false
				for _, s := range prog {
					if p.Ctx.Err() != nil {
						return
					}
					switch s {
					case "register":
						if r := pt.Register(p.Base, []string{"INVOKE", "SHUTDOWN"}, "accountId"); r.Status == 200 {
							registered = true
						}
					case "register-bad":
						fault(p, s)
						pt.RegisterRaw(p.Base, []byte(`{"events":["BOGUS"`), "")
					case "register-twice":
						fault(p, s)
						if r := pt.Register(p.Base, []string{"SHUTDOWN"}, ""); r.Status == 200 {
							registered = true
						}
						pt.Register(p.Base, []string{"INVOKE"}, "")
					case "next":
						if !registered {
							fault(p, s)
						}
						ev := pt.ExtNext()
						if ev.Status == 200 && parseExtEvent(ev.Body).EventType == "SHUTDOWN" {
							res <- vh.Exit{Code: 0}
							return
						}
					case "next-badid":
						fault(p, s)
						pt.ExtNextID("6ba7b811-9dad-11d1-80b4-00c04fd430c8")
					case "next-noid":
						fault(p, s)
						pt.ExtNextID("")
					case "initerror":
						fault(p, s)
						pt.ExtInitError(pt.ID(), "Extension.GenInit")
					case "exiterror":
						fault(p, s)
						pt.ExtExitError(pt.ID(), "Extension.GenExit")
					case "rt-next":
						fault(p, s)
						p2 := vh.NewParty(pt.Src+"#rapi", w.E.Addr, w.E.Log, p.Ctx)
						stray(p2.Next)
					case "rt-respond":
						fault(p, s)
						pt.Respond(staleID, []byte("from-extension"), nil)
					case "stall":
						fault(p, s)
						<-p.Ctx.Done()
						return
					case "short-stall":
						p.Sleep(30 * time.Millisecond)
					case "exit0":
						fault(p, s)
						res <- vh.Exit{Code: 0}
						return
					case "exit1":
						fault(p, s)
						res <- vh.Exit{Code: 1}
						return
					case "sigkill":
						fault(p, s)
						res <- vh.Exit{Signal: 9}
						return
					case "ignore-term":
					case "unknown-route":
						pt.Call("unknown", "GET", "/2020-01-01/extension/nothing", nil, nil)
					}
				}
				res <- healthyExt(p, pt, registered)
			}()
			select {
			case e := <-res:
				return e
			case <-p.Ctx.Done():
				return vh.Exit{Signal: 9}
			}
		}}
	}

	w.E.Init()
	bound := time.Duration(d.T)*time.Millisecond + 2*time.Second + 2500*time.Millisecond
	type rec struct {
		inv *vh.Invocation
		id  string
	}
	var recs []rec
	consecutiveOK := 0
	hasIdleExit := false
	for _, prog := range d.Rt {
		for _, st := range prog {
			if st == "idle-exit" {
				hasIdleExit = true
			}
		}
	}
	for i := 0; i < 16 && consecutiveOK < 3; i++ {
		if hasIdleExit && i > 0 {
			// leave the environment idle for a moment between invocations (a process may die in that gap)
			time.Sleep(40 * time.Millisecond)
		}
		payload := []byte(fmt.Sprintf("event-%s-%d", d.Salt, i))
		if d.EventKB > 0 {
			payload = append(payload, bytes.Repeat([]byte{'.'}, d.EventKB*1024-len(payload))...)
		}
		inv := w.E.InvokeAsync(payload, vh.InvokeOpts{})
		if !inv.Wait(bound + 12*time.Second) {
			c.Check(false, "every_invocation_answered", "C07/wedge", fmt.Sprintf("invocation %d was never answered", i), nil)
			c.SetSample(sampleLog(w, 300))
			return
		}
		c.Clause("every_invocation_answered")
		took := inv.RetT.Sub(inv.CallT)
		c.Check(took <= bound, "answered_in_time", "C07/late-answer", fmt.Sprintf("invocation %d answered after %.0f ms (bound %d+2000+2500)", i, float64(took)/1e6, d.T), nil)
		id := ""
		for _, e := range w.E.Log.Snapshot() {
			if e.Src == "events" && e.Op == "SetCurrentRequestID" && e.Seq > inv.CallSeq && e.Seq < inv.RetSeq {
				id = e.ID
			}
		}
		recs = append(recs, rec{inv, id})
		quiesce(w, 300*time.Millisecond)
		// ---- body monitor ----
		body := inv.W.Body()
		outcome := vh.ErrName(inv.Err)
		mu.Lock()
		cands := append([][]byte{}, posted[id]...)
		ies := append([][]byte{}, initErrs...)
		mu.Unlock()
		okBody := len(body) == 0 && outcome != "ok"
		if outcome == "ok" && len(body) == 0 {
			for _, b := range cands {
				if len(b) == 0 {
					okBody = true
				}
			}
		}
		for _, b := range cands {
			if bytes.Equal(b, body) {
				okBody = true
			}
		}
		if bytes.Equal(body, EchoBody(payload)) {
			okBody = true
		}
		for _, b := range ies {
			if bytes.Equal(b, body) && outcome != "ok" {
				okBody = true
			}
		}
		var fe funcErr
		if json.Unmarshal(body, &fe) == nil && fe.ErrorType != "" {
			platform := strings.HasPrefix(fe.ErrorType, "Runtime.") || strings.HasPrefix(fe.ErrorType, "Extension.") || strings.HasPrefix(fe.ErrorType, "Sandbox.") || fe.ErrorType == "Function.ResponseSizeTooLarge"
			if platform && (fe.ErrorType == "Function.ResponseSizeTooLarge" || id == "" || strings.Contains(fe.ErrorMessage, id)) {
				okBody = true
			}
		}
		c.Check(okBody, "body_is_posted_or_platform", "C07/foreign-body/"+outcome, fmt.Sprintf("invocation %d (%s) returned a body that is neither posted for it nor a platform message", i, outcome), trunc(body))
		c.Check(inv.W.LateWrites() == 0, "no_late_write", "C07/late-write", "reply stream written after the invocation returned", nil)
		if outcome == "ok" {
			consecutiveOK++
		} else {
			consecutiveOK = 0
		}
		c.Counter("outcome_"+outcome, 1)
	}
	// ---- recovery ----
	c.Check(consecutiveOK >= 3, "service_recovers", "C07/no-recovery", "service did not return to normal (3 consecutive successes) within 16 invocations", nil)
	evs := w.E.Log.Snapshot()
	mu.Lock()
	clean := lastFaultSeq
	if strayOpen > 0 {
		// a stray request of a faulty step is still outstanding: no invocation so far was made "after recovery"
		clean = 1 << 62
	}
	mu.Unlock()
	for _, p := range w.E.Sup.Procs() {
		mu.Lock()
		f := faultyProcs[p.Name]
		mu.Unlock()
		if !f {
			continue
		}
		// a process that misbehaved counts as "behaving correctly again" once it is gone or has finished its program;
		// conservatively: once it is gone, or (if still alive at the end) at its last faulty step
		for _, e := range evs {
			if e.Src == "sup" && e.Kind == "exit" && e.Op == p.Name && e.Seq > clean {
				stalled := false
				for _, n := range evs {
					if n.Src == "drv" && strings.HasPrefix(n.Op, "faulty-step:stall") && n.Extra["proc"] == p.Name {
						stalled = true
					}
				}
				if stalled {
					clean = e.Seq
				}
			}
		}
	}
	fails := 0
	firstAfter := -1
	for i, r := range recs {
		if r.inv.CallSeq > clean {
			if firstAfter < 0 {
				firstAfter = i
			}
			if r.inv.Err != nil {
				fails++
				c.Check(i == firstAfter, "at_most_one_failure_after_recovery", "C07/late-failure-after-recovery", fmt.Sprintf("invocation %d failed (%s) although all processes had been behaving correctly since before invocation %d", i, vh.ErrName(r.inv.Err), firstAfter), nil)
			}
		}
	}
	if firstAfter >= 0 {
		c.Check(fails <= 1, "at_most_one_failure_after_recovery", "C07/several-failures-after-recovery", fmt.Sprintf("%d invocations failed after all processes behaved correctly again", fails), nil)
	}
	if staleRequestLeak(w) {
		c.Taint("stale-inflight-request")
	}
	lifecycleOracle(c, w)
	c.SetHooks(w.Hk.Arrived())
	var out []string
	for _, r := range recs {
		out = append(out, vh.ErrName(r.inv.Err))
	}
	c.SetTrace(strings.Join(out, ",")+NormTrace(evs, func(e vh.Event) bool { return e.Src == "sup" && e.Kind == "exit" }), true)
	if c.WantSample || c.Violated() {
		c.SetSample(sampleLog(w, 1500))
	}
}

var _ = rand.Int
