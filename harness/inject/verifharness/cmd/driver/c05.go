package main

import (
	"bytes"
	"fmt"
	"strings"
	"sync/atomic"
	"time"

	"go.amzn.com/verifharness/vh"
)

// C05 — timeout: bounded answer, full teardown, fresh environment next.

func init() { register("C05", genC05) }

type c05Desc struct {
	Kind    string   `json:"kind"`  // stall | sweep | hook
	Who     string   `json:"who"`   // rt | e<k>
	Phase   string   `json:"phase"` // stall phase
	NExt    int      `json:"extensions"`
	T       int64    `json:"timeout_ms"`
	Ignores bool     `json:"ignores_term_and_shutdown"`
	Delta   int      `json:"delta_ms,omitempty"` // sweep: response at T+delta
	Hook    string   `json:"hook,omitempty"`     // hook schedule name
	Rounds  []string `json:"rounds,omitempty"`   // repeat: per-invocation directive ("ok" or "<who>:<stall phase>")
}

func (d c05Desc) id() string {
	if d.Kind == "repeat" {
		return fmt.Sprintf("C05/repeat/n%d/T%d/ign%v/%s", d.NExt, d.T, d.Ignores, strings.Join(d.Rounds, "+"))
	}
	return fmt.Sprintf("C05/%s/%s/%s/n%d/T%d/ign%v/d%d/%s", d.Kind, d.Who, d.Phase, d.NExt, d.T, d.Ignores, d.Delta, d.Hook)
}

var c05RtPhases = []string{"beforeFirstNext", "afterNextNoResponse", "afterResponseNoNext"}
var c05ExtPhases = []string{"beforeRegister", "registeredNeverNext", "afterEvent"}

func genC05(tier string, seed int64) []Case {
	var cases []Case
	seen := map[string]bool{}
	add := func(d c05Desc) {
		if seen[d.id()] {
			return
		}
		seen[d.id()] = true
		run := func(c *Ctx) { runC05(c, d) }
		if d.Kind == "repeat" {
			run = func(c *Ctx) { runC05Repeat(c, d) }
		}
		if d.Kind == "latehelper" {
			run = func(c *Ctx) { runC05LateHelper(c, d) }
		}
		if d.Kind == "latedone" {
			run = func(c *Ctx) { runC05LateDone(c, d) }
		}
		cases = append(cases, Case{ID: d.id(), Class: d.Kind + "/" + d.Phase + d.Hook, Desc: d, Timeout: 90 * time.Second, Run: run})
	}
	Ts := []int64{150, 300}
	for nExt := 0; nExt <= 2; nExt++ {
		for ti, T := range Ts {
			for _, ign := range []bool{false, true} {
				if tier != "thorough" && ign && (nExt+ti)%2 == 1 {
					continue
				}
				for _, ph := range c05RtPhases {
					add(c05Desc{Kind: "stall", Who: "rt", Phase: ph, NExt: nExt, T: T, Ignores: ign})
				}
				for k := 0; k < nExt; k++ {
					for _, ph := range c05ExtPhases {
						add(c05Desc{Kind: "stall", Who: fmt.Sprintf("e%d", k), Phase: ph, NExt: nExt, T: T, Ignores: ign})
					}
				}
			}
		}
	}
	// sweep of response-versus-expiry offsets
	step := 4
	if tier == "thorough" {
		step = 1
	}
	for delta := -20; delta <= 20; delta += step {
		for nExt := 0; nExt <= 1; nExt++ {
			add(c05Desc{Kind: "sweep", Who: "rt", Phase: "respondAtDelta", NExt: nExt, T: 200, Delta: delta})
		}
	}
	// deterministic versions of the races
	for _, hk := range []string{"timeoutFired-then-response", "flowsCancelled-then-response", "failureSeen-then-expiry", "failureSeen-then-expiry-then-next", "releaseFailed-then-expiry"} {
		for nExt := 0; nExt <= 1; nExt++ {
			add(c05Desc{Kind: "hook", Who: "rt", Phase: "", NExt: nExt, T: 300, Hook: hk})
		}
	}
	// the time runs out while the invocation is between the handler's entry and the re-arming of its barriers
	// (slow telemetry sink: the invoke-start event takes longer than the timeout)
	for nExt := 0; nExt <= 1; nExt++ {
		add(c05Desc{Kind: "slowsink", Who: "rt", Phase: "invokeStart", NExt: nExt, T: 250})
		add(c05Desc{Kind: "slowsink", Who: "rt", Phase: "initStart", NExt: nExt, T: 250})
	}
	// several expiries on ONE instance: every timeout must be answered, torn down and
	// followed by a fresh environment, not only the first one of a process lifetime
	// the invocation completes in time as far as the runtime and the orchestrator are concerned, but the goroutine that
	// reports the completion loses the CPU until the timeout has fired and its reset is over
	for nExt := 0; nExt <= 1; nExt++ {
		add(c05Desc{Kind: "latedone", Who: "rt", NExt: nExt, T: 300})
	}
	// the invocation expires while still waiting for a hung initialisation; the goroutine that waited on its behalf
	// gets to act on the failed initialisation only after the reset AND the next (healthy) invocation are over
	for nExt := 0; nExt <= 1; nExt++ {
		for _, who := range []string{"rt", "e0"} {
			if who == "e0" && nExt == 0 {
				continue
			}
			add(c05Desc{Kind: "latehelper", Who: who, NExt: nExt, T: 300})
		}
	}
	add(c05Desc{Kind: "repeat", NExt: 0, T: 150, Rounds: []string{"rt:afterNextNoResponse", "ok", "rt:afterNextNoResponse", "ok"}})
	add(c05Desc{Kind: "repeat", NExt: 1, T: 150, Rounds: []string{"rt:afterNextNoResponse", "rt:beforeFirstNext", "ok", "e0:afterEvent", "ok"}})
	add(c05Desc{Kind: "repeat", NExt: 1, T: 150, Rounds: []string{"ok", "e0:afterEvent", "e0:registeredNeverNext", "rt:afterResponseNoNext", "ok"}})
	add(c05Desc{Kind: "repeat", NExt: 2, T: 150, Ignores: true, Rounds: []string{"e1:registeredNeverNext", "ok", "rt:afterResponseNoNext", "ok", "e0:afterEvent", "ok"}})
	if tier == "thorough" {
		r := rng(seed, "C05/repeat")
		for i := 0; i < 150; i++ {
			nExt := r.Intn(3)
			var rounds []string
			fresh := true // a new generation starts in this round
			for k := 0; k < 4+r.Intn(4); k++ {
				opts := []string{"ok", "ok", "rt:afterNextNoResponse", "rt:afterResponseNoNext"}
				if fresh {
					opts = append(opts, "rt:beforeFirstNext")
				}
				for e := 0; e < nExt; e++ {
					opts = append(opts, fmt.Sprintf("e%d:afterEvent", e))
					if fresh {
						opts = append(opts, fmt.Sprintf("e%d:registeredNeverNext", e), fmt.Sprintf("e%d:beforeRegister", e))
					}
				}
				o := opts[r.Intn(len(opts))]
				rounds = append(rounds, o)
				fresh = o != "ok"
			}
			rounds = append(rounds, "ok")
			add(c05Desc{Kind: "repeat", NExt: nExt, T: []int64{120, 200}[r.Intn(2)], Ignores: r.Intn(3) == 0, Rounds: rounds})
		}
		for rep := 0; rep < 12; rep++ {
			for delta := -6; delta <= 6; delta++ {
				add(c05Desc{Kind: "sweep", Who: "rt", Phase: fmt.Sprintf("respondAtDelta-rep%d", rep), NExt: rep % 3, T: 150, Delta: delta})
			}
		}
	}
	return cases
}

func runC05(c *Ctx, d c05Desc) {
	exts := []string{}
	for i := 0; i < d.NExt; i++ {
		exts = append(exts, fmt.Sprintf("ext%d", i))
	}
	cfg := vh.Config{TimeoutMs: d.T, Extensions: exts}
	if d.Kind == "slowsink" {
		cfg.SlowEventsMs = map[string]int{map[string]string{"invokeStart": "InvokeStart", "initStart": "InitStart"}[d.Phase]: int(d.T) + 400}
	}
	w, err := NewWorld(cfg)
	if err != nil {
		c.Inconclusive("harness: " + err.Error())
		return
	}
	defer w.Close()
	hk := w.Hk
	T := time.Duration(d.T) * time.Millisecond
	respBody := func(ev []byte) []byte { return append([]byte("RESP:"), ev...) }
	var invokeStart time.Time
	crashAt := make(chan struct{})

	w.RtPlan = func(gen int, p *vh.Proc) vh.ExecPlan {
		if gen != 1 {
			return vh.ExecPlan{Behave: w.RtLoop(RtOpts{Handle: func(p *vh.Proc, pt *vh.Party, n int, ev *vh.Resp) *vh.Exit {
				pt.Respond(ev.ReqID(), respBody(ev.Body), nil)
				return nil
			}})}
		}
		o := RtOpts{IgnoreTerm: d.Ignores && d.Who == "rt"}
		if d.Who == "rt" && d.Phase == "beforeFirstNext" {
			o.BeforeFirstNext = func(p *vh.Proc, pt *vh.Party) *vh.Exit { return Stall(p) }
		}
		o.Handle = func(p *vh.Proc, pt *vh.Party, n int, ev *vh.Resp) *vh.Exit {
			switch {
			case d.Kind == "stall" && d.Who == "rt" && d.Phase == "afterNextNoResponse":
				return Stall(p)
			case d.Kind == "slowsink":
				return Stall(p)
			case d.Kind == "stall" && d.Who == "rt" && d.Phase == "afterResponseNoNext":
				pt.Respond(ev.ReqID(), respBody(ev.Body), nil)
				return Stall(p)
			case d.Kind == "sweep":
				target := invokeStart.Add(T + time.Duration(d.Delta)*time.Millisecond)
				if !p.Sleep(time.Until(target)) {
					return nil
				}
				pt.Respond(ev.ReqID(), respBody(ev.Body), nil)
				return nil
			case d.Kind == "hook":
				switch d.Hook {
				case "timeoutFired-then-response", "flowsCancelled-then-response":
					// respond only when told (the expiry path is held at its pause point)
					select {
					case <-crashAt:
					case <-p.Ctx.Done():
						return nil
					}
					pt.Respond(ev.ReqID(), respBody(ev.Body), nil)
					return nil
				default:
					// failureSeen-*: crash shortly before expiry
					if !p.Sleep(T - 120*time.Millisecond) {
						return nil
					}
					return &vh.Exit{Code: 1}
				}
			}
			pt.Respond(ev.ReqID(), respBody(ev.Body), nil)
			return nil
		}
		return vh.ExecPlan{Behave: w.RtLoop(o)}
	}
	w.ExtPlan = func(base string, gen int, p *vh.Proc) vh.ExecPlan {
		healthy := ExtOpts{Events: []string{"INVOKE", "SHUTDOWN"}}
		if gen != 1 {
			return vh.ExecPlan{Behave: w.ExtLoop(healthy)}
		}
		who := "e" + strings.TrimPrefix(base, "ext")
		if d.Kind != "stall" || who != d.Who {
			return vh.ExecPlan{Behave: w.ExtLoop(healthy)}
		}
		o := healthy
		o.IgnoreTerm = d.Ignores
		o.IgnoreShutdown = d.Ignores
		switch d.Phase {
		case "beforeRegister":
			o.BeforeRegister = func(p *vh.Proc, pt *vh.Party) *vh.Exit { return Stall(p) }
		case "registeredNeverNext":
			o.AfterRegister = func(p *vh.Proc, pt *vh.Party, reg *vh.Resp) *vh.Exit { return Stall(p) }
		case "afterEvent":
			o.OnEvent = func(p *vh.Proc, pt *vh.Party, n int, ev *vh.Resp) *vh.Exit {
				if parseExtEvent(ev.Body).EventType == "INVOKE" {
					return Stall(p)
				}
				return nil
			}
		}
		return vh.ExecPlan{Behave: w.ExtLoop(o)}
	}

	switch d.Hook {
	case "timeoutFired-then-response":
		hk.Hold("invoke.timeoutFired", 0)
	case "flowsCancelled-then-response":
		hk.Hold("handleReset.flowsCancelled", 0)
	case "failureSeen-then-expiry", "failureSeen-then-expiry-then-next":
		hk.Hold("fastInvoke.failureSeen", 0)
	case "releaseFailed-then-expiry":
		hk.Hold("invoke.releaseFailed", 0)
	}

	w.E.Init()
	if d.Kind != "stall" && !(d.Kind == "slowsink" && d.Phase == "initStart") {
		// healthy init first, so that the clock of the first invocation starts with a parked runtime
		dl := time.Now().Add(5 * time.Second)
		for time.Now().Before(dl) && w.E.RuntimeState() != "Ready" {
			time.Sleep(200 * time.Microsecond)
		}
		time.Sleep(time.Millisecond)
	}
	invokeStart = time.Now()
	inv := w.E.InvokeAsync([]byte("event-1"), vh.InvokeOpts{})
	var second *vh.Invocation

	switch d.Hook {
	case "timeoutFired-then-response":
		if !hk.WaitHeld("invoke.timeoutFired", T+5*time.Second) {
			c.Inconclusive("hook invoke.timeoutFired not reached")
			return
		}
		// expiry fired, reset not yet requested: the runtime now responds and returns to next
		close(crashAt)
		dl := time.Now().Add(3 * time.Second)
		for time.Now().Before(dl) && w.E.RuntimeState() != "Ready" {
			time.Sleep(200 * time.Microsecond)
		}
		time.Sleep(2 * time.Millisecond)
		hk.Release("invoke.timeoutFired")
	case "flowsCancelled-then-response":
		if !hk.WaitHeld("handleReset.flowsCancelled", T+5*time.Second) {
			c.Inconclusive("hook handleReset.flowsCancelled not reached")
			return
		}
		close(crashAt)
		time.Sleep(5 * time.Millisecond)
		hk.Release("handleReset.flowsCancelled")
	case "failureSeen-then-expiry", "failureSeen-then-expiry-then-next":
		if !hk.WaitHeld("fastInvoke.failureSeen", T+5*time.Second) {
			c.Inconclusive("hook fastInvoke.failureSeen not reached")
			return
		}
		// the failure path is paused before the default error is sent; let the expiry fire and the reset finish
		if !inv.Wait(T + 2*time.Second + 8*time.Second) {
			c.Check(false, "bounded_answer", "C05/hang/hook/"+d.Hook, "invocation never returned while the failure path was paused", nil)
			return
		}
		if d.Hook == "failureSeen-then-expiry-then-next" {
			second = w.E.InvokeAsync([]byte("event-2"), vh.InvokeOpts{})
			// wait until the new reservation is dispatched to the new generation
			dl := time.Now().Add(4 * time.Second)
			for time.Now().Before(dl) && maxGen(w) < 2 {
				time.Sleep(200 * time.Microsecond)
			}
			time.Sleep(3 * time.Millisecond)
		}
		hk.Release("fastInvoke.failureSeen")
		time.Sleep(3 * time.Millisecond)
	case "releaseFailed-then-expiry":
		if !hk.WaitHeld("invoke.releaseFailed", T+5*time.Second) {
			c.Inconclusive("hook invoke.releaseFailed not reached")
			return
		}
		// failure seen by the release path, reset not yet requested: wait beyond the expiry, then continue
		time.Sleep(time.Until(invokeStart.Add(T + 30*time.Millisecond)))
		hk.Release("invoke.releaseFailed")
	}

	bound := T + 2*time.Second + 1500*time.Millisecond
	if !inv.Wait(bound + 10*time.Second) {
		c.Check(false, "bounded_answer", "C05/hang/"+d.Kind+"/"+d.Phase+d.Hook, "stalled invocation was never answered", nil)
		c.SetSample(sampleLog(w, 200))
		return
	}
	outcome := vh.ErrName(inv.Err)
	took := inv.RetT.Sub(inv.CallT)
	cls := d.Kind + "/" + d.Who[:1] + ":" + d.Phase + d.Hook
	evs := w.E.Log.Snapshot()

	switch d.Kind {
	case "stall", "slowsink":
		// (a) timeout outcome
		c.Check(outcome == "timeout", "timeout_outcome", "C05/outcome/"+cls+"/"+outcome, fmt.Sprintf("stalled invocation (%s %s) ended %q instead of the timeout outcome", d.Who, d.Phase, outcome), nil)
		c.Check(took >= T-5*time.Millisecond, "not_before_timeout", "C05/early-timeout/"+cls, fmt.Sprintf("answered after %.0f ms, before the %d ms timeout", float64(took)/1e6, d.T), nil)
	case "sweep":
		// (e) exactly one of {response, timeout}
		okResp := outcome == "ok" && bytes.Equal(inv.W.Body(), respBody([]byte("event-1")))
		okTO := outcome == "timeout"
		c.Check(okResp || okTO, "response_xor_timeout", "C05/sweep-outcome/"+outcome, fmt.Sprintf("response at T%+d ms: outcome %q body %s", d.Delta, outcome, trunc(inv.W.Body())), nil)
		c.Counter("sweep_"+outcome, 1)
	case "hook":
		switch d.Hook {
		case "timeoutFired-then-response", "flowsCancelled-then-response":
			okResp := outcome == "ok" && bytes.Equal(inv.W.Body(), respBody([]byte("event-1")))
			c.Check(okResp || outcome == "timeout", "response_xor_timeout", "C05/hook-outcome/"+d.Hook+"/"+outcome, "response racing the expiry produced neither the response nor the timeout outcome", trunc(inv.W.Body()))
		default:
			c.Check(outcome == "timeout" || outcome == "invokefail", "failure_or_timeout", "C05/hook-outcome/"+d.Hook+"/"+outcome, "crash racing the expiry produced neither a failure nor the timeout outcome", nil)
		}
	}
	// (b) bounded
	c.Check(took <= bound, "bounded_answer", "C05/late-answer/"+cls, fmt.Sprintf("answered after %.0f ms, bound is %d+2000+1500 ms", float64(took)/1e6, d.T), nil)
	c.Check(inv.W.LateWrites() == 0, "no_late_write", "C05/late-write/"+cls, "reply stream written after the invocation returned", nil)

	// (c) every process of the generation was terminated before the answer (only when the outcome is a reset outcome)
	if outcome == "timeout" || outcome == "invokefail" {
		for _, p := range procsOfGen(w, 1) {
			reaped := false
			for _, e := range evs {
				if e.Src == "sup" && e.Kind == "exit" && e.Op == p.Name && e.Seq < inv.RetSeq {
					reaped = true
				}
			}
			c.Check(reaped, "reaped_before_answer", "C05/not-reaped/"+p.Role+"/"+cls, fmt.Sprintf("%s still running when the timeout was answered", p.Name), nil)
		}
	}

	// (d) the next invocation is healthy, on fresh processes when the environment was reset
	// the short timeout of this world served to make the first invocation expire quickly; the healthy invocations that
	// follow (the first of them includes a cold start) are not what is being timed: a loaded machine must not fail them
	w.E.Srv.SetInvokeTimeout(5 * time.Second)
	if second == nil {
		second = w.E.InvokeAsync([]byte("event-2"), vh.InvokeOpts{})
	}
	if !second.Wait(bound + 10*time.Second) {
		c.Check(false, "next_healthy", "C05/next-hangs/"+cls, "the following invocation never returned", nil)
		c.SetSample(sampleLog(w, 220))
		return
	}
	ok2 := second.Err == nil && bytes.Equal(second.W.Body(), respBody([]byte("event-2")))
	c.Check(ok2, "next_healthy", "C05/next-fails/"+cls, fmt.Sprintf("the following invocation ended %q with body %s", vh.ErrName(second.Err), trunc(second.W.Body())), nil)
	if ok2 && (outcome == "timeout" || outcome == "invokefail") {
		id2 := ""
		for _, e := range w.E.Log.Snapshot() {
			if e.Src == "events" && e.Op == "SetCurrentRequestID" && e.Seq > second.CallSeq && e.Seq < second.RetSeq {
				id2 = e.ID
			}
		}
		for name, pt := range w.AllParties() {
			for _, h := range pt.History() {
				if h.Op == "next" && h.Resp != nil && h.Resp.Status == 200 && h.Resp.ReqID() == id2 && id2 != "" {
					for _, p := range w.E.Sup.Procs() {
						if p.Name == name {
							c.Check(p.ExecSeq > inv.RetSeq || (d.Hook == "failureSeen-then-expiry-then-next"), "fresh_processes", "C05/stale-process/"+cls, "the following invocation was served by a process of the timed-out environment", name)
						}
					}
				}
			}
		}
	}
	// a third one, to make sure the environment is stable
	third := w.E.InvokeAsync([]byte("event-3"), vh.InvokeOpts{})
	if third.Wait(bound + 10*time.Second) {
		c.Check(third.Err == nil && bytes.Equal(third.W.Body(), respBody([]byte("event-3"))), "stable_afterwards", "C05/third-fails/"+cls, "the second following invocation failed", vh.ErrName(third.Err))
	}
	lifecycleOracle(c, w)
	if staleRequestLeak(w) {
		c.Taint("stale-inflight-request")
	}
	c.SetHooks(hk.Arrived())
	c.SetTrace(d.id()+outcome+NormTrace(evs, func(e vh.Event) bool { return e.Src == "sup" }), true)
	c.SetInterleaving(d.Hook + fmt.Sprint(d.Delta) + outcome)
	if c.WantSample || c.Violated() {
		c.SetSample(sampleLog(w, 220))
	}
}

// runC05Repeat drives several invocations through ONE emulator instance; the
// behaviour of every party in round i is given by d.Rounds[i] ("ok" or
// "<who>:<phase>" = that party stalls in that phase). Every stalled round is
// held to the same clauses as a single stall.
func runC05Repeat(c *Ctx, d c05Desc) {
	exts := []string{}
	for i := 0; i < d.NExt; i++ {
		exts = append(exts, fmt.Sprintf("ext%d", i))
	}
	w, err := NewWorld(vh.Config{TimeoutMs: d.T, Extensions: exts})
	if err != nil {
		c.Inconclusive("harness: " + err.Error())
		return
	}
	defer w.Close()
	T := time.Duration(d.T) * time.Millisecond
	respBody := func(ev []byte) []byte { return append([]byte("RESP:"), ev...) }
	var directive atomic.Value
	directive.Store("ok")
	dir := func() string { return directive.Load().(string) }

	w.RtPlan = func(gen int, p *vh.Proc) vh.ExecPlan {
		o := RtOpts{IgnoreTerm: d.Ignores}
		o.BeforeFirstNext = func(p *vh.Proc, pt *vh.Party) *vh.Exit {
			if dir() == "rt:beforeFirstNext" {
				return Stall(p)
			}
			return nil
		}
		o.Handle = func(p *vh.Proc, pt *vh.Party, n int, ev *vh.Resp) *vh.Exit {
			switch dir() {
			case "rt:afterNextNoResponse":
				return Stall(p)
			case "rt:afterResponseNoNext":
				pt.Respond(ev.ReqID(), respBody(ev.Body), nil)
				return Stall(p)
			}
			pt.Respond(ev.ReqID(), respBody(ev.Body), nil)
			return nil
		}
		return vh.ExecPlan{Behave: w.RtLoop(o)}
	}
	w.ExtPlan = func(base string, gen int, p *vh.Proc) vh.ExecPlan {
		who := "e" + strings.TrimPrefix(base, "ext")
		o := ExtOpts{Events: []string{"INVOKE", "SHUTDOWN"}, IgnoreTerm: d.Ignores, IgnoreShutdown: d.Ignores}
		o.BeforeRegister = func(p *vh.Proc, pt *vh.Party) *vh.Exit {
			if dir() == who+":beforeRegister" {
				return Stall(p)
			}
			return nil
		}
		o.AfterRegister = func(p *vh.Proc, pt *vh.Party, reg *vh.Resp) *vh.Exit {
			if dir() == who+":registeredNeverNext" {
				return Stall(p)
			}
			return nil
		}
		o.OnEvent = func(p *vh.Proc, pt *vh.Party, n int, ev *vh.Resp) *vh.Exit {
			if parseExtEvent(ev.Body).EventType == "INVOKE" && dir() == who+":afterEvent" {
				return Stall(p)
			}
			return nil
		}
		return vh.ExecPlan{Behave: w.ExtLoop(o)}
	}

	directive.Store(d.Rounds[0])
	w.E.Init()
	bound := T + 2*time.Second + 1500*time.Millisecond
	lastStallRet := int64(0)
	seenStall := map[string]int{}
	for i, r := range d.Rounds {
		directive.Store(r)
		payload := []byte(fmt.Sprintf("event-%d", i))
		inv := w.E.InvokeAsync(payload, vh.InvokeOpts{})
		cls := "repeat/" + r
		if r != "ok" {
			seenStall[r]++
			if seenStall[r] > 1 || len(seenStall) > 1 {
				cls += "/later"
			}
		} else if lastStallRet != 0 {
			cls += "/after-stall"
		}
		if !inv.Wait(bound + 10*time.Second) {
			c.Check(false, "bounded_answer", "C05/hang/"+cls, fmt.Sprintf("round %d (%s) of %v was never answered", i, r, d.Rounds), nil)
			c.SetSample(sampleLog(w, 220))
			return
		}
		outcome := vh.ErrName(inv.Err)
		took := inv.RetT.Sub(inv.CallT)
		evs := w.E.Log.Snapshot()
		if r == "ok" {
			ok := inv.Err == nil && bytes.Equal(inv.W.Body(), respBody(payload))
			if !c.Check(ok, "next_healthy", "C05/next-fails/"+cls, fmt.Sprintf("round %d (healthy) of %v ended %q with body %s", i, d.Rounds, outcome, trunc(inv.W.Body())), nil) {
				break
			}
			if lastStallRet != 0 {
				id := ""
				for _, e := range evs {
					if e.Src == "events" && e.Op == "SetCurrentRequestID" && e.Seq > inv.CallSeq && e.Seq < inv.RetSeq {
						id = e.ID
					}
				}
				for name, pt := range w.AllParties() {
					for _, h := range pt.History() {
						if h.Op == "next" && h.Resp != nil && h.Resp.Status == 200 && h.Resp.ReqID() == id && id != "" {
							for _, p := range w.E.Sup.Procs() {
								if p.Name == name {
									c.Check(p.ExecSeq > lastStallRet, "fresh_processes", "C05/stale-process/"+cls, "the invocation after a timeout was served by a process of the timed-out environment", name)
								}
							}
						}
					}
				}
			}
			continue
		}
		c.Check(outcome == "timeout", "timeout_outcome", "C05/outcome/"+cls+"/"+outcome, fmt.Sprintf("round %d (%s) of %v ended %q instead of the timeout outcome", i, r, d.Rounds, outcome), nil)
		c.Check(took >= T-5*time.Millisecond, "not_before_timeout", "C05/early-timeout/"+cls, fmt.Sprintf("answered after %.0f ms, before the %d ms timeout", float64(took)/1e6, d.T), nil)
		c.Check(took <= bound, "bounded_answer", "C05/late-answer/"+cls, fmt.Sprintf("answered after %.0f ms, bound is %d+2000+1500 ms", float64(took)/1e6, d.T), nil)
		c.Check(inv.W.LateWrites() == 0, "no_late_write", "C05/late-write/"+cls, "reply stream written after the invocation returned", nil)
		if outcome == "timeout" || outcome == "invokefail" {
			for _, p := range w.E.Sup.Procs() {
				if p.ExecSeq == 0 || p.ExecSeq > inv.RetSeq {
					continue
				}
				reaped := false
				for _, e := range evs {
					if e.Src == "sup" && e.Kind == "exit" && e.Op == p.Name && e.Seq < inv.RetSeq {
						reaped = true
					}
				}
				c.Check(reaped, "reaped_before_answer", "C05/not-reaped/"+p.Role+"/"+cls, fmt.Sprintf("%s still running when round %d's timeout was answered", p.Name, i), nil)
			}
		}
		c.Counter("repeat_stall_rounds", 1)
		lastStallRet = inv.RetSeq
	}
	lifecycleOracle(c, w)
	if staleRequestLeak(w) {
		c.Taint("stale-inflight-request")
	}
	c.SetTrace(d.id()+NormTrace(w.E.Log.Snapshot(), func(e vh.Event) bool { return e.Src == "sup" }), true)
	c.SetInterleaving("repeat/" + strings.Join(d.Rounds, "+"))
	if c.WantSample || c.Violated() {
		c.SetSample(sampleLog(w, 260))
	}
}

// runC05LateHelper: the first invocation arrives while the initialisation hangs (the runtime never asks for next / an
// extension registers and never asks for next) and expires. The goroutine that waited for the initialisation on its
// behalf is held (pause point invoke.initFailed) until the timeout reset is over and the NEXT invocation has been
// served by the new generation; whatever it still does then must not touch that generation: the invocation after
// that is healthy too, on the same processes.
func runC05LateHelper(c *Ctx, d c05Desc) {
	exts := []string{}
	for i := 0; i < d.NExt; i++ {
		exts = append(exts, fmt.Sprintf("ext%d", i))
	}
	w, err := NewWorld(vh.Config{TimeoutMs: d.T, Extensions: exts})
	if err != nil {
		c.Inconclusive("harness: " + err.Error())
		return
	}
	defer w.Close()
	respBody := func(ev []byte) []byte { return append([]byte("RESP:"), ev...) }
	w.RtPlan = func(gen int, p *vh.Proc) vh.ExecPlan {
		o := RtOpts{Handle: func(p *vh.Proc, pt *vh.Party, n int, ev *vh.Resp) *vh.Exit {
			pt.Respond(ev.ReqID(), respBody(ev.Body), nil)
			return nil
		}}
		if gen == 1 && d.Who == "rt" {
			o.BeforeFirstNext = func(p *vh.Proc, pt *vh.Party) *vh.Exit { return Stall(p) }
		}
		return vh.ExecPlan{Behave: w.RtLoop(o)}
	}
	w.ExtPlan = func(base string, gen int, p *vh.Proc) vh.ExecPlan {
		o := ExtOpts{Events: []string{"INVOKE", "SHUTDOWN"}}
		if gen == 1 && d.Who == "e0" && base == "ext0" {
			o.AfterRegister = func(p *vh.Proc, pt *vh.Party, reg *vh.Resp) *vh.Exit { return Stall(p) }
		}
		return vh.ExecPlan{Behave: w.ExtLoop(o)}
	}
	cls := "latehelper/" + d.Who
	w.Hk.Hold("invoke.initFailed", 0)
	w.E.Init()
	first := w.E.InvokeAsync([]byte("event-1"), vh.InvokeOpts{})
	if !first.Wait(time.Duration(d.T)*time.Millisecond + 12*time.Second) {
		c.Check(false, "bounded_answer", "C05/hang/"+cls, "the invocation waiting for a hung initialisation was never answered", nil)
		c.SetSample(sampleLog(w, 200))
		return
	}
	c.Check(vh.ErrName(first.Err) == "timeout", "timeout_outcome", "C05/outcome/"+cls+"/"+vh.ErrName(first.Err), "the invocation waiting for a hung initialisation did not end as a timeout", nil)
	if !w.Hk.WaitHeld("invoke.initFailed", 3*time.Second) {
		c.Inconclusive("hook invoke.initFailed not reached")
		return
	}
	w.E.Srv.SetInvokeTimeout(5 * time.Second)
	second := w.E.InvokeAsync([]byte("event-2"), vh.InvokeOpts{})
	ok2 := second.Wait(12*time.Second) && second.Err == nil && bytes.Equal(second.W.Body(), respBody([]byte("event-2")))
	c.Check(ok2, "next_healthy", "C05/next-fails/"+cls, "the invocation following the expired one failed", vh.ErrName(second.Err))
	nProcs := len(w.E.Sup.Procs())
	// now the late helper acts
	w.Hk.Release("invoke.initFailed")
	time.Sleep(150 * time.Millisecond)
	third := w.E.InvokeAsync([]byte("event-3"), vh.InvokeOpts{})
	if !third.Wait(12 * time.Second) {
		c.Check(false, "stable_afterwards", "C05/third-hangs/"+cls, "the second following invocation never returned", nil)
		c.SetSample(sampleLog(w, 200))
		return
	}
	ok3 := third.Err == nil && bytes.Equal(third.W.Body(), respBody([]byte("event-3")))
	c.Check(ok3, "stable_afterwards", "C05/third-fails/"+cls, fmt.Sprintf("the second following invocation ended %q with body %s", vh.ErrName(third.Err), trunc(third.W.Body())), nil)
	c.Check(len(w.E.Sup.Procs()) == nProcs, "stable_afterwards", "C05/late-helper-churn/"+cls, "processes were started after the healthy invocation that followed the expired one: its environment was torn down behind its back", fmt.Sprintf("%d -> %d", nProcs, len(w.E.Sup.Procs())))
	c.SetHooks(w.Hk.Arrived())
	c.SetTrace(cls+fmt.Sprint(d.NExt)+vh.ErrName(third.Err), true)
	c.SetInterleaving(cls)
	if c.WantSample || c.Violated() {
		c.SetSample(sampleLog(w, 200))
	}
}

// runC05LateDone: the runtime answers at once and returns to next - the invocation is complete - but the goroutine that
// posts the completion is held (pause point fastInvoke.successSeen) until the timeout has fired and the reset it
// requests is over. The completion it then reports belongs to an invocation that no longer exists: it must not be taken
// for the outcome of the next one.
func runC05LateDone(c *Ctx, d c05Desc) {
	exts := []string{}
	for i := 0; i < d.NExt; i++ {
		exts = append(exts, fmt.Sprintf("ext%d", i))
	}
	w, err := NewWorld(vh.Config{TimeoutMs: d.T, Extensions: exts})
	if err != nil {
		c.Inconclusive("harness: " + err.Error())
		return
	}
	defer w.Close()
	respBody := func(ev []byte) []byte { return append([]byte("RESP:"), ev...) }
	w.RtPlan = func(gen int, p *vh.Proc) vh.ExecPlan {
		return vh.ExecPlan{Behave: w.RtLoop(RtOpts{Handle: func(p *vh.Proc, pt *vh.Party, n int, ev *vh.Resp) *vh.Exit {
			pt.Respond(ev.ReqID(), respBody(ev.Body), nil)
			return nil
		}})}
	}
	w.ExtPlan = func(base string, gen int, p *vh.Proc) vh.ExecPlan {
		return vh.ExecPlan{Behave: w.ExtLoop(ExtOpts{Events: []string{"INVOKE", "SHUTDOWN"}})}
	}
	cls := "latedone"
	w.E.Init()
	w.Hk.Hold("fastInvoke.successSeen", 0)
	first := w.E.InvokeAsync([]byte("event-1"), vh.InvokeOpts{})
	if !first.Wait(time.Duration(d.T)*time.Millisecond + 12*time.Second) {
		c.Check(false, "bounded_answer", "C05/hang/"+cls, "the invocation whose completion report was delayed was never answered", nil)
		c.SetSample(sampleLog(w, 200))
		return
	}
	if !w.Hk.WaitHeld("fastInvoke.successSeen", 3*time.Second) {
		c.Inconclusive("hook fastInvoke.successSeen not reached")
		return
	}
	// either outcome is the platform's to choose (the answer was delivered, the completion was not reported in time)
	o1 := vh.ErrName(first.Err)
	c.Check(o1 == "timeout" || o1 == "ok", "timeout_outcome", "C05/outcome/"+cls+"/"+o1, "unexpected outcome of the invocation whose completion report was delayed", nil)
	w.Hk.Release("fastInvoke.successSeen")
	time.Sleep(30 * time.Millisecond)
	w.E.Srv.SetInvokeTimeout(5 * time.Second)
	for i, ev := range []string{"event-2", "event-3"} {
		inv := w.E.InvokeAsync([]byte(ev), vh.InvokeOpts{})
		if !inv.Wait(12 * time.Second) {
			c.Check(false, "next_healthy", "C05/next-hangs/"+cls, "an invocation after the delayed completion report never returned", ev)
			c.SetSample(sampleLog(w, 200))
			return
		}
		ok := inv.Err == nil && bytes.Equal(inv.W.Body(), respBody([]byte(ev)))
		clause, sig := "next_healthy", "C05/next-fails/"+cls
		if i == 1 {
			clause, sig = "stable_afterwards", "C05/third-fails/"+cls
		}
		c.Check(ok, clause, sig, fmt.Sprintf("the invocation %q after a delayed completion report ended %q with body %s", ev, vh.ErrName(inv.Err), trunc(inv.W.Body())), nil)
	}
	c.SetHooks(w.Hk.Arrived())
	c.SetTrace(cls+fmt.Sprint(d.NExt)+o1, true)
	c.SetInterleaving(cls)
	if c.WantSample || c.Violated() {
		c.SetSample(sampleLog(w, 200))
	}
}
