// Command driver runs the cases of one property check (see package fw).
package main

import (
	"os"
	"sort"
	"strings"

	"go.amzn.com/verifharness/fw"
)

type (
	Ctx       = fw.Ctx
	Case      = fw.Case
	Violation = fw.Violation
	Generator = fw.Generator
)

var registry = fw.Registry

func register(prop string, g Generator) { fw.Register(prop, g) }

func main() { fw.Main(os.Args[1:]) }

// ---- small helpers shared by the property files ----

func sortedKeys(m map[string]string) []string {
	ks := make([]string, 0, len(m))
	for k := range m {
		ks = append(ks, k)
	}
	sort.Strings(ks)
	return ks
}

func join(ss ...string) string { return strings.Join(ss, "|") }
