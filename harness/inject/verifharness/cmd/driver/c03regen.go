package main

// C03, second generation: an initialisation that follows a reset is an initialisation too. The same
// extension files are launched again, the runtime may register a different set of internal extensions
// than last time, and - if everybody arrives - the re-initialisation must complete and the waiting
// invocation must be delivered; nothing of the previous generation (registrations, gate counts) may be
// waited for or stand in the way.

import (
	"fmt"
	"strings"
	"time"

	"go.amzn.com/verifharness/vh"
)

type c03RegenDesc struct {
	Ext     []string `json:"ext_subs"`
	Int1    []string `json:"int_subs_gen1"`
	Int2    []string `json:"int_subs_gen2"`
	RtLast1 bool     `json:"rt_next_last_gen1"`
	RtLast2 bool     `json:"rt_next_last_gen2"`
	Reason  string   `json:"reset_reason"`
}

func runC03Regen(c *Ctx, d c03RegenDesc) {
	extNames := []string{}
	for e := range d.Ext {
		extNames = append(extNames, fmt.Sprintf("ext%d", e))
	}
	w, err := NewWorld(vh.Config{TimeoutMs: 8000, Extensions: extNames})
	if err != nil {
		c.Inconclusive("harness: " + err.Error())
		return
	}
	defer w.Close()
	pup := func(*vh.Proc) vh.ExecPlan { return vh.ExecPlan{Behave: vh.Puppet{ExitOnTerm: true}.Run} }
	w.RtPlan = func(gen int, p *vh.Proc) vh.ExecPlan { return pup(p) }
	w.ExtPlan = func(base string, gen int, p *vh.Proc) vh.ExecPlan { return pup(p) }
	w.E.Init()

	play := func(g int, ints []string, rtLast bool) bool {
		tag := fmt.Sprintf("gen%d", g)
		inv := w.E.InvokeAsync([]byte("event-of-"+tag), vh.InvokeOpts{})
		type member struct {
			key  string
			pt   *vh.Party
			subs string
			nx   *vh.Async
		}
		var members []*member
		for e, name := range extNames {
			p := w.E.WaitExt(name, g, 5*time.Second)
			if !c.Check(p != nil, "launch_exactly_once", "C03/regen/extension-not-started/"+tag, "an extension file was not launched in this generation", name) {
				return false
			}
			pt := w.Party(p)
			r := pt.Register(name, subsOf(d.Ext[e]), "")
			if !c.Check(r.Status == 200, "register_accepted", fmt.Sprintf("C03/regen/register-refused/%s/%d/%s", tag, r.Status, r.Etype), "registration of a launched external extension was refused", name) {
				return false
			}
			members = append(members, &member{key: name, pt: pt, subs: d.Ext[e]})
		}
		rtp := w.E.WaitRuntime(g, 5*time.Second)
		if !c.Check(rtp != nil, "runtime_started", "C03/regen/runtime-not-started/"+tag, "runtime was not exec'd although every external extension had registered", nil) {
			return false
		}
		rt := w.Party(rtp)
		var rtNext *vh.Async
		askRt := func() {
			rtNext = vh.Go(func() *vh.Resp { return rt.Next() })
			vh.Settle(rtNext, func() bool { return w.E.RuntimeState() == "Ready" }, 3*time.Second)
		}
		for i, subs := range ints {
			name := fmt.Sprintf("internal%d", i)
			pt := vh.NewParty(fmt.Sprintf("ext:internal-%s-i%d", tag, i), w.E.Addr, w.E.Log, rtp.Ctx)
			defer pt.Close()
			r := pt.Register(name, subsOf(subs), "")
			if !c.Check(r.Status == 200, "register_accepted", fmt.Sprintf("C03/regen/int-register-refused/%s/%d/%s", tag, r.Status, r.Etype), "registration of an internal extension before the runtime's first next was refused", name) {
				return false
			}
			members = append(members, &member{key: name, pt: pt, subs: subs})
		}
		if !rtLast {
			askRt()
		}
		for _, m := range members {
			m := m
			m.nx = vh.Go(func() *vh.Resp { return m.pt.ExtNext() })
			key := m.key
			vh.Settle(m.nx, func() bool { return w.E.ExtState(key) == "Ready" }, 3*time.Second)
		}
		if rtLast {
			// nobody may have been served while the runtime has not asked yet
			for _, m := range members {
				c.Check(!m.nx.Done(), "no_delivery_before_all_arrived", "C03/regen/early-delivery/"+tag, "an extension was served before the runtime asked for next", m.key)
			}
			askRt()
		}
		// everybody has arrived: the waiting invocation must now be delivered
		ev := rtNext.Wait(5 * time.Second)
		if !c.Check(ev != nil && ev.Status == 200, "init_completes", "C03/regen/init-never-completes/"+tag, "all parties of this generation arrived but the runtime never received the invocation", fmt.Sprintf("ext=%v int=%v", d.Ext, ints)) {
			return false
		}
		c.Check(string(ev.Body) == "event-of-"+tag, "init_completes", "C03/regen/wrong-event/"+tag, "the runtime received another event than this generation's invocation", string(ev.Body))
		for _, m := range members {
			if strings.Contains(m.subs, "I") {
				r := m.nx.Wait(3 * time.Second)
				c.Check(r != nil && r.Status == 200, "subscribers_served", "C03/regen/subscriber-not-served/"+tag, "an INVOKE subscriber did not receive the event", m.key)
			} else {
				time.Sleep(2 * time.Millisecond)
				c.Check(!m.nx.Done(), "subscribers_served", "C03/regen/non-subscriber-served/"+tag, "an extension that did not subscribe to INVOKE received the event", m.key)
			}
		}
		rt.Respond(ev.ReqID(), []byte("done-"+tag), nil)
		vh.Go(func() *vh.Resp { return rt.Next() })
		for _, m := range members {
			if strings.Contains(m.subs, "I") {
				m := m
				vh.Go(func() *vh.Resp { return m.pt.ExtNext() })
			}
		}
		ok := inv.Wait(5*time.Second) && inv.Err == nil
		c.Check(ok, "init_completes", "C03/regen/invocation-fails/"+tag+"/"+vh.ErrName(inv.Err), "the invocation of this generation did not complete", vh.ErrName(inv.Err))
		st := w.E.State()
		c.Check(len(st.Extensions) == len(members), "registrations_of_this_generation_only", fmt.Sprintf("C03/regen/extension-count/%s/%d-vs-%d", tag, len(st.Extensions), len(members)), "the platform knows another set of extensions than those registered in this generation", nil)
		c.State(fmt.Sprintf("%s ext=%d int=%d rtlast=%v", tag, len(d.Ext), len(ints), rtLast))
		return ok
	}

	if play(1, d.Int1, d.RtLast1) {
		rdone := make(chan struct{})
		go func() { w.E.Srv.Reset(d.Reason, 1500); close(rdone) }()
		select {
		case <-rdone:
			play(2, d.Int2, d.RtLast2)
		case <-time.After(10 * time.Second):
			c.Inconclusive("reset did not return")
			return
		}
	}
	c.SetInterleaving(fmt.Sprintf("regen/e%d/i%d>i%d/%v/%v", len(d.Ext), len(d.Int1), len(d.Int2), d.RtLast1, d.RtLast2))
	c.SetTrace(fmt.Sprintf("regen e%v i1%v i2%v rtlast %v %v reset-%s", d.Ext, d.Int1, d.Int2, d.RtLast1, d.RtLast2, d.Reason), true)
	if c.WantSample || c.Violated() {
		c.SetSample(sampleLog(w, 120))
	}
}

func genC03Regen(tier string, seed int64) []Case {
	var cases []Case
	add := func(d c03RegenDesc) {
		show := func(subs []string) string {
			var out []string
			for _, x := range subs {
				if x == "" {
					x = "-"
				}
				out = append(out, x)
			}
			return strings.Join(out, ",")
		}
		id := fmt.Sprintf("C03/regen/e[%s]/i1[%s]/i2[%s]/%v-%v/%s", show(d.Ext), show(d.Int1), show(d.Int2), d.RtLast1, d.RtLast2, d.Reason)
		cls := fmt.Sprintf("regen-e%d-i%d-i%d", len(d.Ext), len(d.Int1), len(d.Int2))
		cases = append(cases, Case{ID: id, Class: cls, Desc: d, Run: func(c *Ctx) { runC03Regen(c, d) }})
	}
	ints := [][]string{{}, {"I"}, {""}, {"I", ""}}
	exts := [][]string{{}, {"IS"}, {"I", "S"}}
	k := 0
	for _, e := range exts {
		for _, i1 := range ints {
			for _, i2 := range ints {
				k++
				if tier != "thorough" && len(e) == 2 && k%2 == 0 {
					continue
				}
				add(c03RegenDesc{Ext: e, Int1: i1, Int2: i2, RtLast1: k%2 == 0, RtLast2: k%3 != 0, Reason: []string{"explicit", "failure", "timeout"}[k%3]})
				if tier == "thorough" {
					add(c03RegenDesc{Ext: e, Int1: i1, Int2: i2, RtLast1: k%2 != 0, RtLast2: k%3 == 0, Reason: []string{"explicit", "failure", "timeout"}[(k+1)%3]})
				}
			}
		}
	}
	return cases
}
