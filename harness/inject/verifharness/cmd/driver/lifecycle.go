package main

import (
	"fmt"
	"sort"
	"strings"

	"go.amzn.com/verifharness/vh"
)

// lifecycleOracle is the C15 trace checker: it runs over the recorded
// EventsAPI stream of a finished scenario and relates it to what the parties
// actually did (their call/ret records in the same log). Violations carry
// C15/ signatures, whichever property's scenario produced the trace.
func lifecycleOracle(c *Ctx, w *World) {
	lifecycleOracleOn(c, w.E.Log.Snapshot(), w.E.Cfg.Extensions)
}

// lifecycleOracleOn is the checker proper: a pure function of a recorded log (also fed with
// hand-written logs by the oracle self-tests).
func lifecycleOracleOn(c *Ctx, evs []vh.Event, cfgExtensions []string) {
	var stream []vh.Event
	for _, e := range evs {
		if e.Src == "events" {
			switch e.Op {
			case "InitStart", "InitRuntimeDone", "InitReport", "ExtensionInit", "InvokeStart", "InvokeRuntimeDone", "SetCurrentRequestID", "RestoreRuntimeDone":
				stream = append(stream, e)
			}
		}
	}
	if len(stream) == 0 {
		return
	}
	c.Counter("c15_streams", 1)
	c.Counter("c15_events", len(stream))

	// ---- structure: well-nested episodes ----
	type episode struct {
		start, report int64 // seqs
		phase         string
		rtDone        []vh.Event
		extLines      []vh.Event
		idx           int
	}
	var episodes []*episode
	var cur *episode
	curReq := "" // request id announced by SetCurrentRequestID
	started := map[string]int{}
	done := map[string]int{}
	invokeOpen := false // between SetCurrentRequestID and the next one
	for _, e := range stream {
		switch e.Op {
		case "SetCurrentRequestID":
			if cur != nil {
				c.Check(false, "episodes_nested", "C15/invoke-begins-inside-init", "an invocation began while an init episode was still open", e.String())
			}
			curReq = e.ID
			invokeOpen = true
		case "InitStart":
			if !c.Check(cur == nil, "episodes_nested", "C15/init-start-inside-init", "init-start emitted while a previous init episode had no init-report yet", e.String()) {
				// close the dangling one
			}
			cur = &episode{start: e.Seq, phase: e.Extra["phase"], idx: len(episodes)}
			episodes = append(episodes, cur)
			wantPhase := "init"
			if invokeOpen {
				wantPhase = "invoke"
			}
			c.Check(e.Extra["phase"] == wantPhase, "phase_tag", "C15/phase/"+e.Extra["phase"]+"-expected-"+wantPhase, fmt.Sprintf("init episode %d tagged %q, expected %q", cur.idx, e.Extra["phase"], wantPhase), nil)
		case "InitRuntimeDone":
			if c.Check(cur != nil, "episodes_nested", "C15/runtime-done-outside-init", "init-runtime-done outside an init episode", e.String()) {
				cur.rtDone = append(cur.rtDone, e)
				c.Check(e.Extra["phase"] == cur.phase, "phase_tag", "C15/phase-mismatch-runtime-done", "init-runtime-done carries a different phase than its init-start", nil)
			}
		case "ExtensionInit":
			if c.Check(cur != nil, "episodes_nested", "C15/extension-line-outside-init", "extension status line outside an init episode", e.String()) {
				cur.extLines = append(cur.extLines, e)
			}
		case "InitReport":
			if c.Check(cur != nil, "episodes_nested", "C15/report-outside-init", "init-report without an open init episode", e.String()) {
				cur.report = e.Seq
				c.Check(e.Extra["phase"] == cur.phase, "phase_tag", "C15/phase-mismatch-report", "init-report carries a different phase than its init-start", nil)
				c.Check(len(cur.rtDone) <= 1, "at_most_one_runtime_done", "C15/two-init-runtime-done", "more than one init-runtime-done in one init episode", len(cur.rtDone))
				cur = nil
			}
		case "InvokeStart":
			c.Check(cur == nil, "episodes_nested", "C15/invoke-start-inside-init", "invoke-start emitted inside an open init episode", e.String())
			started[e.ID]++
			c.Check(e.ID == curReq, "start_for_current", "C15/invoke-start-wrong-id", "invoke-start carries an id other than the dispatched invocation's", []string{e.ID, curReq})
		case "InvokeRuntimeDone":
			done[curReq]++
			c.Check(started[curReq] >= 1, "done_after_start", "C15/runtime-done-before-start", "invoke-runtime-done without a preceding invoke-start for the dispatched invocation", curReq)
		}
	}
	if cur != nil {
		// an episode still open at the end of the log is only wrong if the scenario went on past it:
		// some invocation was answered after the episode began (a scenario may legitimately end mid-init)
		later := false
		for _, e := range evs {
			if strings.HasPrefix(e.Src, "caller") && e.Kind == "ret" && e.Seq > cur.start {
				later = true
			}
		}
		c.Check(!later, "one_report_per_init", "C15/init-without-report", "an init episode never emitted its init-report although an invocation was answered after it began", nil)
	} else {
		c.Clause("one_report_per_init")
	}
	// every dispatched invocation (SetCurrentRequestID) has exactly one start and at most one runtime-done
	seenReq := map[string]bool{}
	for _, e := range stream {
		if e.Op == "SetCurrentRequestID" && !seenReq[e.ID] {
			seenReq[e.ID] = true
			c.Check(started[e.ID] == 1, "one_start_per_invocation", fmt.Sprintf("C15/invoke-start-count/%d", started[e.ID]), fmt.Sprintf("dispatched invocation has %d invoke-start events", started[e.ID]), e.ID)
			c.Check(done[e.ID] <= 1, "at_most_one_done", "C15/two-invoke-runtime-done", "more than one invoke-runtime-done for an invocation", e.ID)
		}
	}

	// ---- truthfulness ----
	// index party calls
	type call struct {
		src, op string
		callSeq int64
		retSeq  int64
		status  int
		extra   map[string]string
		id      string
	}
	var calls []*call
	open := map[int64]*call{}
	for _, e := range evs {
		// every HTTP party counts, whatever its label (hostile clients of C07 register extensions too)
		if e.Kind == "call" && e.Src != "drv" && !strings.HasPrefix(e.Src, "caller") {
			cl := &call{src: e.Src, op: e.Op, callSeq: e.Seq, extra: e.Extra, id: e.ID}
			calls = append(calls, cl)
			open[e.Seq] = cl
		} else if e.Kind == "ret" && e.Ref != 0 {
			if cl, ok := open[e.Ref]; ok {
				cl.retSeq, cl.status = e.Seq, e.Status
			}
		}
	}
	// first fault of the scenario up to a point: derived from supervisor records and error reports
	faultBefore := func(lower, seq int64) []string {
		var fs []string
		for _, e := range evs {
			if e.Seq >= seq {
				break
			}
			if e.Seq < lower {
				continue
			}
			if e.Src == "sup" && e.Kind == "exit" {
				if strings.HasPrefix(e.Op, "runtime-") {
					fs = append(fs, "Runtime.ExitError")
				} else {
					fs = append(fs, "Extension.Crash")
				}
			}
			if e.Src == "sup" && e.Kind == "exec" && e.Extra["fail"] != "" {
				if strings.HasPrefix(e.Op, "runtime-") {
					fs = append(fs, "Runtime.InvalidEntrypoint")
				} else {
					fs = append(fs, "Extension.LaunchError")
				}
			}
			// an error report is a fault only if it was accepted (202); one whose answer was never
			// seen (sender killed meanwhile) may or may not have been applied: it is admissible
			if e.Kind == "call" && (e.Op == "extiniterror" || e.Op == "extexiterror") {
				if cl := open[e.Seq]; cl != nil && (cl.status == 202 || cl.retSeq == 0 || cl.status == 0) {
					q := ""
					if cl.status != 202 {
						q = "?" // possibly applied
					}
					if e.Op == "extiniterror" {
						fs = append(fs, "Extension.InitError"+q)
					} else {
						fs = append(fs, "Extension.ExitError"+q)
					}
				}
			}
		}
		return fs
	}
	for _, ep := range episodes {
		end := ep.report
		if end == 0 {
			end = 1 << 62
		}
		// processes exec'd inside the episode
		var rtName string
		extExec := map[string]bool{} // base names attempted
		for _, e := range evs {
			if e.Src == "sup" && e.Kind == "exec" && e.Seq > ep.start && e.Seq < end {
				if strings.HasPrefix(e.Op, "runtime-") {
					rtName = e.Op
				} else if strings.HasPrefix(e.Op, "extension-") {
					b := strings.TrimPrefix(e.Op, "extension-")
					if i := strings.LastIndex(b, "-"); i >= 0 {
						b = b[:i]
					}
					extExec[b] = true
				}
			}
		}
		for _, rd := range ep.rtDone {
			if rd.Extra["status"] == "success" {
				ok := false
				for _, cl := range calls {
					if rtName != "" && (cl.src == "rt:"+rtName || strings.HasPrefix(cl.src, "rt:"+rtName+"#") || strings.Contains(cl.src, "#rapi")) && (cl.op == "next" || cl.op == "restorenext") && cl.callSeq < rd.Seq {
						ok = true
					}
				}
				c.Check(ok, "init_success_truthful", "C15/init-success-without-next", "init-runtime-done reports success although the runtime of that generation had not asked for next", rtName)
				c.Check(rd.Etype == "", "init_success_no_errortype", "C15/init-success-with-errortype", "successful init-runtime-done carries an error type", rd.Etype)
			} else {
				// the record of the first fault is wiped by a reset and by a shutdown:
				// only faults since the last clear / the end of the previous init episode count
				lower := int64(0)
				for _, e := range evs {
					if e.Src == "hook" && e.Kind == "hit" && e.Op == "rapidCtx.beforeClear" && e.Seq < rd.Seq {
						lower = e.Seq
					}
				}
				if ep.idx > 0 && episodes[ep.idx-1].report > lower {
					lower = episodes[ep.idx-1].report
				}
				fs := faultBefore(lower, rd.Seq)
				want := "Runtime.Unknown"
				for _, f := range fs {
					if !strings.HasSuffix(f, "?") {
						want = f
						break
					}
				}
				// several faults may be concurrent: accept any fault that happened before the event
				ok := rd.Etype == want
				for _, f := range fs {
					if rd.Etype == strings.TrimSuffix(f, "?") {
						ok = true
					}
				}
				if !ok && rd.Etype == "Runtime.Unknown" {
					// a reset was requested in this episode and cancelled the init before the events watcher had
					// recorded any of the deaths: the platform could not know about them yet (a process that
					// died is a fault for the platform from the moment its watcher has dealt with the event)
					resetAsked, recorded, firstDeath := false, false, int64(0)
					for _, e := range evs {
						if e.Seq <= lower || e.Seq >= rd.Seq {
							continue
						}
						if e.Src == "sup" && e.Kind == "exit" && firstDeath == 0 {
							firstDeath = e.Seq
						}
						if (e.Src == "hook" && e.Kind == "hit" && (e.Op == "invoke.timeoutFired" || e.Op == "invoke.releaseFailed")) || (e.Src == "drv" && e.Kind == "call" && e.Op == "reset") {
							resetAsked = true
						}
						if e.Src == "hook" && e.Kind == "hit" && e.Op == "watchEvents.exitRecorded" && firstDeath != 0 {
							recorded = true
						}
					}
					onlyDeaths := true
					for _, f := range fs {
						if f != "Runtime.ExitError" && f != "Extension.Crash" && !strings.HasSuffix(f, "?") {
							onlyDeaths = false
						}
					}
					if resetAsked && !recorded && onlyDeaths {
						ok = true
						c.Counter("init_cancelled_by_reset_before_death_was_recorded", 1)
					}
				}
				// a reset (timeout) before any fault is "no fault" too
				c.Check(ok, "init_error_type_truthful", "C15/init-error-type/"+rd.Etype+"-expected-"+want, fmt.Sprintf("init-runtime-done error type %q, faults so far %v", rd.Etype, fs), nil)
			}
		}
		// extension status lines: one per known extension, no duplicates, truthful
		names := map[string]int{}
		for _, l := range ep.extLines {
			names[l.Extra["name"]]++
		}
		for n, k := range names {
			c.Check(k == 1, "one_line_per_extension", "C15/duplicate-extension-line", "an extension has more than one status line in one init episode", n)
		}
		for b := range extExec {
			if ep.report == 0 {
				break // the episode was still open when the scenario ended: the status lines are emitted when it closes
			}
			c.Check(names[b] == 1, "one_line_per_extension", "C15/missing-extension-line", "a launched external extension has no status line in its init episode", b)
		}
		firstLine := int64(1 << 62)
		if len(ep.extLines) > 0 {
			firstLine = ep.extLines[0].Seq
		}
		// internal extensions acknowledged before the first line must be listed; listed names must be known
		known := map[string]bool{}
		for b := range extExec {
			known[b] = true
		}
		// agents survive a failed init until the next reset clears them: a line may name an extension
		// that registered in an earlier episode since the last clear
		lastClear := int64(0)
		for _, e := range evs {
			if e.Src == "hook" && e.Kind == "hit" && e.Op == "rapidCtx.beforeClear" && e.Seq < ep.start {
				lastClear = e.Seq
			}
		}
		for _, cl := range calls {
			if cl.op == "register" && cl.callSeq > lastClear && cl.callSeq < end {
				known[cl.extra["name"]] = true
			}
			if cl.op == "register" && cl.callSeq > ep.start && cl.callSeq < end {
				n := cl.extra["name"]
				if cl.retSeq != 0 && cl.retSeq < firstLine && cl.status == 200 && len(ep.extLines) > 0 {
					c.Check(names[n] == 1, "one_line_per_extension", "C15/missing-registered-extension-line", "an extension registered before the status lines were emitted is not listed", n)
				}
			}
		}
		for _, cfgName := range cfgExtensions {
			known[cfgName] = true
		}
		for _, l := range ep.extLines {
			n := l.Extra["name"]
			c.Check(known[n], "lines_only_known", "C15/unknown-extension-line", "status line for an extension nobody launched or registered", n)
			// truthfulness of state / subscriptions against acknowledged calls (interval semantics)
			var reg, nxt, ierr, xerr *call
			// the status lines are composed some time between the previous platform event and their own emission:
			// only what had been acknowledged before that previous event is certain to have been visible
			horizon := int64(0)
			for _, e := range evs {
				if e.Src == "events" && e.Seq < l.Seq && e.Op != "ExtensionInit" {
					horizon = e.Seq
				}
			}
			// agents survive a failed init until the next reset clears them: look back to the last clear
			lower := int64(0)
			for _, e := range evs {
				if e.Src == "hook" && e.Kind == "hit" && e.Op == "rapidCtx.beforeClear" && e.Seq < l.Seq {
					lower = e.Seq
				}
			}
			for _, cl := range calls {
				if cl.callSeq < lower || cl.callSeq > l.Seq {
					continue
				}
				mine := false
				if cl.op == "register" {
					mine = cl.extra["name"] == n
					if mine && (reg == nil || cl.status == 200) {
						reg = cl
					}
					continue
				}
				if reg != nil && cl.src == reg.src {
					mine = true
				}
				if !mine {
					continue
				}
				switch cl.op {
				case "extnext":
					if nxt == nil {
						nxt = cl
					}
				case "extiniterror":
					ierr = cl
				case "extexiterror":
					xerr = cl
				}
			}
			st := l.Extra["state"]
			switch st {
			case "Ready", "Running":
				c.Check(nxt != nil, "extension_state_truthful", "C15/ext-state/"+st+"-without-next", "extension reported "+st+" although it never asked for next", n)
			case "Registered":
				c.Check(reg != nil, "extension_state_truthful", "C15/ext-state/Registered-without-register", "extension reported Registered although it never called register", n)
			case "InitError":
				c.Check(ierr != nil, "extension_state_truthful", "C15/ext-state/InitError-without-report", "extension reported InitError without having reported one", n)
			case "ExitError":
				c.Check(xerr != nil, "extension_state_truthful", "C15/ext-state/ExitError-without-report", "extension reported ExitError without having reported one", n)
			case "Started":
				ack := reg != nil && reg.retSeq != 0 && reg.retSeq < horizon && reg.status == 200
				c.Check(!ack, "extension_state_truthful", "C15/ext-state/Started-after-register", "extension reported Started although its registration had been acknowledged", n)
			case "LaunchError":
				c.Clause("extension_state_truthful")
			}
			if reg != nil && reg.retSeq != 0 && reg.retSeq < horizon && reg.status == 200 {
				body := reg.extra["body"]
				var want []string
				for _, ev := range []string{"INVOKE", "SHUTDOWN"} {
					if strings.Contains(body, "\""+ev+"\"") {
						want = append(want, ev)
					}
				}
				got := strings.Split(l.Extra["subs"], ",")
				if l.Extra["subs"] == "" {
					got = nil
				}
				sort.Strings(got)
				sort.Strings(want)
				c.Check(strings.Join(got, ",") == strings.Join(want, ","), "extension_subscriptions_truthful", "C15/ext-subscriptions", fmt.Sprintf("status line lists subscriptions %v, extension registered %v", got, want), n)
			}
		}
	}
	// invoke-runtime-done with an error status carries the type of the first fault (since the last clear);
	// "Sandbox.Failure" / none only when no fault was recorded
	for _, e := range stream {
		if e.Op != "InvokeRuntimeDone" || e.Extra["status"] == "success" || e.Extra["status"] == "timeout" {
			continue
		}
		lower := int64(0)
		for _, x := range evs {
			if x.Src == "hook" && x.Kind == "hit" && x.Op == "rapidCtx.beforeClear" && x.Seq < e.Seq {
				lower = x.Seq
			}
		}
		fs := faultBefore(lower, e.Seq)
		want := "Sandbox.Failure"
		for _, f := range fs {
			if !strings.HasSuffix(f, "?") {
				want = f
				break
			}
		}
		ok := e.Etype == want
		for _, f := range fs {
			if e.Etype == strings.TrimSuffix(f, "?") {
				ok = true
			}
		}
		c.Check(ok, "invoke_error_type_truthful", "C15/invoke-error-type/"+e.Etype+"-expected-"+want, fmt.Sprintf("invoke-runtime-done (%s) error type %q, faults since the last clear %v", e.Extra["status"], e.Etype, fs), nil)
	}
	// invoke-runtime-done success => the runtime posted its response and asked for next before it
	curReq = ""
	for _, e := range stream {
		if e.Op == "SetCurrentRequestID" {
			curReq = e.ID
		}
		if e.Op == "InvokeRuntimeDone" && e.Extra["status"] == "success" {
			posted, nexted := false, false
			var postSeq int64
			for _, cl := range calls {
				// the FIRST submission for this id counts (later ones are duplicates the platform refuses)
				if (cl.op == "response" || cl.op == "error") && cl.id == curReq && cl.callSeq < e.Seq && !posted {
					posted = true
					postSeq = cl.callSeq
				}
			}
			for _, cl := range calls {
				if cl.op == "next" && posted && cl.callSeq > postSeq && cl.callSeq < e.Seq {
					nexted = true
				}
			}
			c.Check(posted && nexted, "invoke_success_truthful", "C15/invoke-success-untrue", fmt.Sprintf("invoke-runtime-done success for %s although response posted=%v, returned to next=%v", curReq, posted, nexted), nil)
		}
	}
}
