package main

import (
	"bytes"
	"fmt"
	"go.amzn.com/verifharness/vh"
	"strings"
	"time"
)

// C15 — platform lifecycle events form a well-nested, truthful trace.
// The checker (lifecycle.go) is attached to every scenario of C01..C10; this
// check runs a battery drawn from those scenario families and counts only the
// C15/ clauses as its verdict.

func init() { register("C15", genC15) }

func genC15(tier string, seed int64) []Case {
	var cases []Case
	take := func(prop string, every int) {
		gen := registry[prop]
		if gen == nil {
			return
		}
		for i, cs := range gen(tier, seed) {
			if i%every != 0 {
				continue
			}
			cs := cs
			cs.ID = "C15:" + cs.ID
			cs.Class = prop + ":" + cs.Class
			if strings.HasPrefix(cs.Class, "C01:") && strings.Contains(cs.ID, "big") {
				continue
			}
			cases = append(cases, cs)
		}
	}
	q := tier != "thorough"
	pick := func(quick, thorough int) int {
		if q {
			return quick
		}
		return thorough
	}
	take("C06", pick(2, 1))
	// the C06 scenarios in which a refused error report precedes the real fault, all of them
	if gen := registry["C06"]; gen != nil {
		have := map[string]bool{}
		for _, cs := range cases {
			have[cs.ID] = true
		}
		for _, cs := range gen(tier, seed) {
			if (strings.Contains(cs.ID, "/refused-report") || strings.Contains(cs.ID, "registrations.flowsCancelled")) && !have["C15:"+cs.ID] {
				cs := cs
				cs.Class = "C06:" + cs.Class
				cs.ID = "C15:" + cs.ID
				cases = append(cases, cs)
			}
		}
	}
	// the standalone front end's sequence (reserve / invoke / wait until release, then reset with reason "failure"):
	// the only way an invoke-runtime-done with an error status is emitted
	for _, who := range []string{"rt", "ext"} {
		for _, when := range []string{"idle", "during"} {
			for _, code := range []int32{0, 3} {
				who, when, code := who, when, code
				id := fmt.Sprintf("C15/standalone/%s/%s/c%d", who, when, code)
				cases = append(cases, Case{ID: id, Class: "standalone", Desc: map[string]interface{}{"who": who, "when": when, "exit": code}, Timeout: 60 * time.Second, Run: func(c *Ctx) { runC15Standalone(c, who, when, code) }})
			}
		}
	}
	take("C05", pick(3, 1))
	take("C09", pick(4, 1))
	take("C03", pick(40, 12))
	take("C04", pick(20, 6))
	take("C08", pick(6, 2))
	take("C01", pick(6, 3))
	take("C10", pick(2, 1))
	return cases
}

func runC15Standalone(c *Ctx, who, when string, code int32) {
	w, err := NewWorld(vh.Config{TimeoutMs: 3000, Extensions: []string{"ext0"}})
	if err != nil {
		c.Inconclusive("harness: " + err.Error())
		return
	}
	defer w.Close()
	w.RtPlan = func(gen int, p *vh.Proc) vh.ExecPlan {
		return vh.ExecPlan{Behave: w.RtLoop(RtOpts{Handle: func(p *vh.Proc, pt *vh.Party, n int, ev *vh.Resp) *vh.Exit {
			if gen == 1 && bytes.Equal(ev.Body, []byte("doomed")) {
				if who == "rt" && when == "during" {
					return &vh.Exit{Code: code}
				}
				// somebody else is (or was) the fault: never answer this one
				return Stall(p)
			}
			pt.Respond(ev.ReqID(), EchoBody(ev.Body), nil)
			return nil
		}})}
	}
	w.ExtPlan = func(base string, gen int, p *vh.Proc) vh.ExecPlan {
		o := ExtOpts{Events: []string{"INVOKE", "SHUTDOWN"}}
		if gen == 1 && who == "ext" && when == "during" {
			seen := 0
			o.OnEvent = func(p *vh.Proc, pt *vh.Party, n int, ev *vh.Resp) *vh.Exit {
				if parseExtEvent(ev.Body).EventType == "INVOKE" {
					seen++
					if seen == 2 {
						return &vh.Exit{Code: code}
					}
				}
				return nil
			}
		}
		return vh.ExecPlan{Behave: w.ExtLoop(o)}
	}
	w.E.Init()
	first := w.E.InvokeAsync([]byte("healthy"), vh.InvokeOpts{})
	if !first.Wait(8*time.Second) || first.Err != nil {
		c.Inconclusive("harness: healthy first invocation failed")
		return
	}
	for dl := time.Now().Add(3 * time.Second); time.Now().Before(dl) && (w.E.RuntimeState() != "Ready" || w.E.ExtState("ext0") != "Ready"); {
		time.Sleep(200 * time.Microsecond)
	}
	if when == "idle" {
		var p *vh.Proc
		if who == "rt" {
			p = w.E.WaitRuntime(1, time.Second)
		} else {
			p = w.E.WaitExt("ext0", 1, time.Second)
		}
		if p == nil {
			c.Inconclusive("harness: process not found")
			return
		}
		p.RequestExit(vh.Exit{Code: code})
		for dl := time.Now().Add(3 * time.Second); time.Now().Before(dl) && p.Alive(); {
			time.Sleep(200 * time.Microsecond)
		}
		time.Sleep(10 * time.Millisecond) // the events watcher has handled the exit
	}
	err2, _ := w.E.StandaloneInvoke([]byte("doomed"))
	c.Check(err2 != nil, "standalone_failure_reported", "C15/standalone/no-failure", "the doomed invocation did not fail", nil)
	after := w.E.InvokeAsync([]byte("after"), vh.InvokeOpts{})
	c.Check(after.Wait(8*time.Second) && after.Err == nil, "standalone_recovers", "C15/standalone/no-recovery", "the invocation after the failure reset did not succeed", vh.ErrName(after.Err))
	n := 0
	for _, e := range w.E.Log.Snapshot() {
		if e.Src == "events" && e.Op == "InvokeRuntimeDone" && e.Extra["status"] != "success" {
			n++
		}
	}
	c.Check(n == 1, "error_runtime_done_emitted", fmt.Sprintf("C15/standalone/error-runtime-done-count/%d", n), "the failure reset did not emit exactly one invoke-runtime-done with an error status", nil)
	lifecycleOracle(c, w)
	c.SetTrace(fmt.Sprintf("standalone/%s/%s/%d", who, when, code), true)
	if c.WantSample || c.Violated() {
		c.SetSample(sampleLog(w, 140))
	}
}
