package main

import (
	"strings"
)

// C15 — platform lifecycle events form a well-nested, truthful trace.
// The checker (lifecycle.go) is attached to every scenario of C01..C10; this
// check runs a battery drawn from those scenario families and counts only the
// C15/ clauses as its verdict.

func init() { register("C15", genC15) }

func genC15(tier string, seed int64) []Case {
	var cases []Case
	take := func(prop string, every int) {
		gen := registry[prop]
		if gen == nil {
			return
		}
		for i, cs := range gen(tier, seed) {
			if i%every != 0 {
				continue
			}
			cs := cs
			cs.ID = "C15:" + cs.ID
			cs.Class = prop + ":" + cs.Class
			if strings.HasPrefix(cs.Class, "C01:") && strings.Contains(cs.ID, "big") {
				continue
			}
			cases = append(cases, cs)
		}
	}
	q := tier != "thorough"
	pick := func(quick, thorough int) int {
		if q {
			return quick
		}
		return thorough
	}
	take("C06", pick(2, 1))
	// the C06 scenarios in which a refused error report precedes the real fault, all of them
	if gen := registry["C06"]; gen != nil {
		have := map[string]bool{}
		for _, cs := range cases {
			have[cs.ID] = true
		}
		for _, cs := range gen(tier, seed) {
			if strings.Contains(cs.ID, "/refused-report") && !have["C15:"+cs.ID] {
				cs := cs
				cs.Class = "C06:" + cs.Class
				cs.ID = "C15:" + cs.ID
				cases = append(cases, cs)
			}
		}
	}
	take("C05", pick(3, 1))
	take("C09", pick(4, 1))
	take("C03", pick(40, 12))
	take("C04", pick(20, 6))
	take("C08", pick(6, 2))
	take("C01", pick(6, 3))
	take("C10", pick(2, 1))
	return cases
}
