package main

import (
	"bytes"
	"encoding/json"
	"fmt"
	"os"
	"strings"
	"time"

	"go.amzn.com/lambda/interop"
	"go.amzn.com/verifharness/vh"
)

// C18 — snapshot restore protocol and credential endpoint.

func init() { register("C18", genC18) }

type c18Desc struct {
	Order  string `json:"order"` // P,R,N | P,R,- | P,R,E | P,R,I | R,P | noP | P,R,X | sweep | creds | nosnapshot
	HookMs int64  `json:"hook_timeout_ms"`
	Delta  int    `json:"delta_ms,omitempty"`
	EType  string `json:"error_type,omitempty"`
	NExt   int    `json:"extensions"`
	As     string `json:"report_as,omitempty"` // the property on whose behalf the sanitised-type clause is evaluated (C20 borrows these scenarios)
}

func (d c18Desc) id() string {
	return fmt.Sprintf("C18/%s/h%d/d%d/%s/n%d", d.Order, d.HookMs, d.Delta, d.EType, d.NExt)
}

func genC18(tier string, seed int64) []Case {
	var cases []Case
	seen := map[string]bool{}
	add := func(d c18Desc) {
		if seen[d.id()] {
			return
		}
		seen[d.id()] = true
		cases = append(cases, Case{ID: d.id(), Class: d.Order, Desc: d, Timeout: 60 * time.Second, Run: func(c *Ctx) { runC18(c, d) }})
	}
	etypes := []string{"Runtime.HookFailed", "Function.Oops", "bogus type", "xRuntime.Fooy", "", "Runtime.Hook, secret=hunter2", "Function.Err.Sub", "Runtime.Ok\",\"injected\":\"yes"}
	for n := 0; n <= 1; n++ {
		for _, h := range []int64{150, 300} {
			add(c18Desc{Order: "P,R,N", HookMs: h, NExt: n})
			add(c18Desc{Order: "P,R,N-fast", HookMs: h, NExt: n})
			add(c18Desc{Order: "P,R,-", HookMs: h, NExt: n})
			add(c18Desc{Order: "R,P", HookMs: h, NExt: n})
			add(c18Desc{Order: "noP", HookMs: h, NExt: n})
			add(c18Desc{Order: "P,R,X", HookMs: h, NExt: n})
			for _, et := range etypes {
				add(c18Desc{Order: "P,R,E", HookMs: h, EType: et, NExt: n})
				add(c18Desc{Order: "P,R,I", HookMs: h, EType: et, NExt: n})
			}
		}
		add(c18Desc{Order: "creds", HookMs: 300, NExt: n})
	}
	add(c18Desc{Order: "nosnapshot", HookMs: 300})
	// boundary values of the hook timeout (a request that leaves the field out carries 0): a hung hook still
	// ends the restore with the timeout error, at once
	for _, h := range []int64{1, 0, -5} {
		add(c18Desc{Order: "P,R,-", HookMs: h})
	}
	step := 10
	if tier == "thorough" {
		step = 1
	}
	for dl := -30; dl <= 30; dl += step {
		add(c18Desc{Order: "sweep", HookMs: 200, Delta: dl})
	}
	if tier == "thorough" {
		for rep := 0; rep < 20; rep++ {
			for dl := -8; dl <= 8; dl += 2 {
				add(c18Desc{Order: "sweep", HookMs: int64(150 + rep), Delta: dl})
			}
		}
	}
	return cases
}

func credsGet(pt *vh.Party, token string) *vh.Resp {
	h := map[string]string{}
	if token != "<none>" {
		h["Authorization"] = token
	}
	return pt.Call("credentials", "GET", "/2021-04-23/credentials", h, nil)
}

func runC18(c *Ctx, d c18Desc) {
	exts := []string{}
	for i := 0; i < d.NExt; i++ {
		exts = append(exts, fmt.Sprintf("ext%d", i))
	}
	snapshot := d.Order != "nosnapshot"
	// the emulator API's Init carries no expiry for the initial credentials (zero value)
	initExpiry := time.Time{}
	w, err := NewWorld(vh.Config{TimeoutMs: 10000, Extensions: exts, Snapshot: snapshot, AwsKey: "AKIA-INIT", AwsSecret: "secret-init", AwsSession: "session-init"})
	if err != nil {
		c.Inconclusive("harness: " + err.Error())
		return
	}
	defer w.Close()
	w.RtPlan = func(gen int, p *vh.Proc) vh.ExecPlan {
		if gen == 1 {
			return vh.ExecPlan{Behave: vh.Puppet{ExitOnTerm: true}.Run}
		}
		return vh.ExecPlan{Behave: w.RtLoop(RtOpts{})}
	}
	// the emulator's own process environment carries credentials too (that is how the RIE binary gets them):
	// in snapshot mode they must not reach the runtime's environment either (cases of one process run one after the other)
	procCreds := map[string]string{"AWS_ACCESS_KEY_ID": "AKIA-PROCESS-ENV", "AWS_SECRET_ACCESS_KEY": "secret-process-env", "AWS_SESSION_TOKEN": "session-process-env"}
	if snapshot && d.HookMs%300 == 0 {
		for k, v := range procCreds {
			os.Setenv(k, v)
		}
	}
	w.E.Init()
	rtp := w.E.WaitRuntime(1, 5*time.Second)
	for k := range procCreds {
		os.Unsetenv(k)
	}
	if rtp == nil {
		c.Inconclusive("runtime not started")
		return
	}
	rt := w.Party(rtp)
	probe := vh.NewParty("probe", w.E.Addr, w.E.Log, rtp.Ctx)
	token := rtp.Env["AWS_CONTAINER_AUTHORIZATION_TOKEN"]

	if d.Order == "nosnapshot" {
		c.Check(credsGet(probe, "anything").Status == 404, "credentials_route_absent", "C18/credentials-route-in-ondemand-mode", "credentials endpoint exists outside snapshot mode", nil)
		c.Check(rt.RestoreNext().Status == 404, "restore_routes_absent", "C18/restore-route-in-ondemand-mode", "restore/next exists outside snapshot mode", nil)
		_, hasURI := rtp.Env["AWS_CONTAINER_CREDENTIALS_FULL_URI"]
		c.Check(!hasURI && rtp.Env["AWS_ACCESS_KEY_ID"] == "AKIA-INIT", "ondemand_env_has_keys", "C18/ondemand-env", "on-demand mode environment does not carry the keys directly", nil)
		c.SetTrace("nosnapshot", true)
		return
	}
	// credentials are not in the environment, the URI and token are
	for _, k := range []string{"AWS_ACCESS_KEY_ID", "AWS_SECRET_ACCESS_KEY", "AWS_SESSION_TOKEN"} {
		_, has := rtp.Env[k]
		c.Check(!has, "keys_not_in_environment", "C18/keys-in-environment", "temporary credentials were placed in the runtime's environment in snapshot mode", k)
	}
	c.Check(token != "" && rtp.Env["AWS_CONTAINER_CREDENTIALS_FULL_URI"] == "http://"+w.E.Addr+"/2021-04-23/credentials", "uri_and_token_in_environment", "C18/uri-token-env", "credentials URI / token missing or not pointing at the API address", rtp.Env["AWS_CONTAINER_CREDENTIALS_FULL_URI"])

	// restored credentials may well expire EARLIER than the ones they replace (R2 < R1)
	expiryOf := map[string]time.Time{
		"AKIA-INIT": initExpiry,
		"AKIA-R1":   time.Now().Add(3 * time.Hour).UTC().Truncate(time.Second),
		"AKIA-R2":   time.Now().Add(15 * time.Minute).UTC().Truncate(time.Second),
	}
	restore := func(key string, hookMs int64) (chan error, time.Time, int64) {
		ch := make(chan error, 1)
		t := time.Now()
		seq := w.E.Log.Add(vh.Event{Src: "drv", Kind: "call", Op: "restore"})
		go func() {
			_, err := w.E.Srv.Restore(&interop.Restore{AwsKey: key, AwsSecret: "secret-" + key, AwsSession: "session-" + key, CredentialsExpiry: expiryOf[key], RestoreHookTimeoutMs: hookMs})
			w.E.Log.Add(vh.Event{Src: "drv", Kind: "ret", Op: "restore", Extra: map[string]string{"err": fmt.Sprint(err)}})
			ch <- err
		}()
		return ch, t, seq
	}
	checkCreds := func(wantKey, label string) {
		r := credsGet(probe, token)
		var got struct {
			AccessKeyId, SecretAccessKey, Token string
			Expiration                          time.Time
		}
		json.Unmarshal(r.Body, &got)
		c.Check(r.Status == 200 && got.AccessKeyId == wantKey, "credentials_most_recent", "C18/credentials-stale/"+label, fmt.Sprintf("credentials endpoint returned key %q, expected %q (%s)", got.AccessKeyId, wantKey, label), nil)
		if r.Status == 200 && got.AccessKeyId == wantKey {
			c.Check(got.Expiration.Equal(expiryOf[wantKey]), "credentials_most_recent", "C18/credentials-expiry/"+label, fmt.Sprintf("credentials endpoint returned expiry %v, the %s credentials expire %v", got.Expiration, wantKey, expiryOf[wantKey]), nil)
		}
	}
	park := func() *vh.Async {
		a := vh.Go(func() *vh.Resp { return rt.RestoreNext() })
		ret, _ := vh.Settle(a, func() bool { return w.E.RuntimeState() == "RestoreReady" }, 3*time.Second)
		c.Check(!ret, "restore_poll_parks", "C18/restore-poll-returned-early", "restore/next returned before any restore was requested", nil)
		// init completes once every party is parked
		dl := time.Now().Add(5 * time.Second)
		for time.Now().Before(dl) {
			done := false
			for _, e := range w.E.Log.Snapshot() {
				if e.Src == "events" && e.Op == "InitReport" {
					done = true
				}
			}
			if done {
				break
			}
			time.Sleep(200 * time.Microsecond)
		}
		return a
	}
	hook := time.Duration(d.HookMs) * time.Millisecond
	finishWithInvoke := func(label string) {
		inv := w.E.InvokeAsync([]byte("after-restore"), vh.InvokeOpts{})
		ok := inv.Wait(8 * time.Second)
		_ = ok
		c.Counter("post_restore_invocations_"+label+"_"+vh.ErrName(inv.Err), 1)
	}

	switch d.Order {
	case "creds":
		checkCreds("AKIA-INIT", "after-0-restores")
		for _, bad := range []string{"", "<none>", token + "x", "x" + token, strings.ToUpper(token), "Bearer " + token, token[:len(token)-1], "00000000-0000-0000-0000-000000000000"} {
			if bad == token {
				continue
			}
			r := credsGet(probe, bad)
			c.Check(r.Status == 404 && !bytes.Contains(r.Body, []byte("AKIA")) && !bytes.Contains(r.Body, []byte("secret-")), "credentials_need_token", "C18/credentials-leak", fmt.Sprintf("credentials request with a wrong token (%q) answered %d", bad, r.Status), trunc(r.Body))
		}
		// another instance's token
		w2, err := NewWorld(vh.Config{TimeoutMs: 5000, Snapshot: true, AwsKey: "AKIA-OTHER"})
		if err == nil {
			w2.RtPlan = func(gen int, p *vh.Proc) vh.ExecPlan { return vh.ExecPlan{Behave: vh.Puppet{ExitOnTerm: true}.Run} }
			w2.E.Init()
			if p2 := w2.E.WaitRuntime(1, 3*time.Second); p2 != nil {
				other := p2.Env["AWS_CONTAINER_AUTHORIZATION_TOKEN"]
				c.Check(other != token && other != "", "token_per_instance", "C18/token-not-per-instance", "two instances share the credentials token", nil)
				c.Check(credsGet(probe, other).Status == 404, "credentials_need_token", "C18/credentials-other-instance-token", "another instance's token was accepted", nil)
			}
			w2.Close()
		}
		a := park()
		ch, _, _ := restore("AKIA-R1", 2000)
		a.Wait(3 * time.Second)
		nx := vh.Go(func() *vh.Resp { return rt.Next() })
		vh.Settle(nx, func() bool { return w.E.RuntimeState() == "Ready" }, 3*time.Second)
		select {
		case err := <-ch:
			c.Check(err == nil, "restore_succeeds_after_next", "C18/restore-error/creds", "restore failed", fmt.Sprint(err))
		case <-time.After(5 * time.Second):
			c.Check(false, "restore_returns", "C18/restore-hang/creds", "restore never returned", nil)
			return
		}
		checkCreds("AKIA-R1", "after-1-restore")
		// a second restore while the runtime is not in the restore poll: returns at once, still updates the credentials
		ch2, _, _ := restore("AKIA-R2", 2000)
		select {
		case <-ch2:
		case <-time.After(3 * time.Second):
			c.Check(false, "restore_returns", "C18/restore-hang/second", "a second restore did not return at once", nil)
			return
		}
		checkCreds("AKIA-R2", "after-2-restores")
		c.SetTrace("creds", true)
		return

	case "P,R,N":
		a := park()
		ch, _, _ := restore("AKIA-R1", d.HookMs*10)
		r := a.Wait(3 * time.Second)
		if !c.Check(r != nil && r.Status == 200, "restore_releases_poll", "C18/poll-not-released", "restore/next was not released by the restore request", nil) {
			return
		}
		// the restore must not return before the runtime asked for next
		select {
		case err := <-ch:
			c.Check(false, "restore_waits_for_next", "C18/restore-returned-before-next", "restore returned before the runtime ran its hook and asked for next", fmt.Sprint(err))
			return
		case <-time.After(30 * time.Millisecond):
			c.Clause("restore_waits_for_next")
		}
		nSeq := int64(0)
		nx := vh.Go(func() *vh.Resp { return rt.Next() })
		vh.Settle(nx, func() bool { return w.E.RuntimeState() == "Ready" }, 3*time.Second)
		select {
		case err := <-ch:
			c.Check(err == nil, "restore_succeeds_after_next", "C18/restore-error/PRN", "restore returned an error although the runtime asked for next", fmt.Sprint(err))
		case <-time.After(5 * time.Second):
			c.Check(false, "restore_returns", "C18/restore-hang/PRN", "restore never returned after the runtime asked for next", nil)
			return
		}
		for _, e := range w.E.Log.Snapshot() {
			if e.Kind == "call" && e.Op == "next" {
				nSeq = e.Seq
			}
			if e.Src == "drv" && e.Kind == "ret" && e.Op == "restore" {
				c.Check(e.Seq > nSeq && nSeq > 0, "restore_after_next_seq", "C18/restore-before-next-seq", "restore returned before the runtime's next was issued (sequence numbers)", nil)
			}
		}
		// the invocation that follows works
		inv := w.E.InvokeAsync([]byte("after-restore"), vh.InvokeOpts{})
		ev := nx.Wait(5 * time.Second)
		if c.Check(ev != nil && ev.Status == 200, "invoke_after_restore", "C18/invoke-after-restore", "no invocation delivered after a successful restore", nil) {
			rt.Respond(ev.ReqID(), []byte("ok"), nil)
			vh.Go(func() *vh.Resp { return rt.Next() })
			c.Check(inv.Wait(5*time.Second) && inv.Err == nil, "invoke_after_restore", "C18/invoke-after-restore-fails", "invocation after restore failed", vh.ErrName(inv.Err))
		}

	case "P,R,N-fast":
		// the runtime is quicker than the platform: it has run its (empty) hook and is already
		// parked in next when the restore path starts waiting for it
		w.Hk.Hold("handleRestore.released", 0)
		a := park()
		ch, _, _ := restore("AKIA-R1", d.HookMs*4)
		if !w.Hk.WaitHeld("handleRestore.released", 5*time.Second) {
			c.Inconclusive("pause point handleRestore.released not reached")
			return
		}
		r := a.Wait(3 * time.Second)
		if !c.Check(r != nil && r.Status == 200, "restore_releases_poll", "C18/poll-not-released", "restore/next was not released by the restore request", nil) {
			w.Hk.Release("handleRestore.released")
			return
		}
		nx := vh.Go(func() *vh.Resp { return rt.Next() })
		vh.Settle(nx, func() bool { return w.E.RuntimeState() == "Ready" }, 3*time.Second)
		time.Sleep(time.Millisecond)
		w.Hk.Release("handleRestore.released")
		select {
		case err := <-ch:
			c.Check(err == nil, "restore_succeeds_after_next", "C18/restore-error/PRN-fast/"+fmt.Sprint(err), "restore returned an error although the runtime had run its hook and asked for next (before the platform started waiting)", fmt.Sprint(err))
		case <-time.After(hook*4 + 6*time.Second):
			c.Check(false, "restore_returns", "C18/restore-hang/PRN-fast", "restore never returned although the runtime asked for next", nil)
			return
		}
		inv := w.E.InvokeAsync([]byte("after-restore"), vh.InvokeOpts{})
		ev := nx.Wait(5 * time.Second)
		if c.Check(ev != nil && ev.Status == 200, "invoke_after_restore", "C18/invoke-after-restore", "no invocation delivered after a successful restore", nil) {
			rt.Respond(ev.ReqID(), []byte("ok"), nil)
			vh.Go(func() *vh.Resp { return rt.Next() })
			c.Check(inv.Wait(5*time.Second) && inv.Err == nil, "invoke_after_restore", "C18/invoke-after-restore-fails", "invocation after restore failed", vh.ErrName(inv.Err))
		}

	case "P,R,-":
		a := park()
		ch, t0, _ := restore("AKIA-R1", d.HookMs)
		a.Wait(3 * time.Second)
		select {
		case err := <-ch:
			el := time.Since(t0)
			c.Check(err != nil && err.Error() == "Runtime.RestoreHookUserTimeout", "hook_timeout_error", "C18/hook-timeout-error/"+fmt.Sprint(err), "restore without hook completion did not fail with the hook timeout error", fmt.Sprint(err))
			c.Check(el >= hook-2*time.Millisecond, "hook_timeout_not_early", "C18/hook-timeout-early", fmt.Sprintf("restore failed after %.0f ms, before the %d ms hook timeout", float64(el)/1e6, d.HookMs), nil)
			c.Check(el <= hook+1500*time.Millisecond, "hook_timeout_bounded", "C18/hook-timeout-late", fmt.Sprintf("restore failed only after %.0f ms", float64(el)/1e6), nil)
		case <-time.After(hook + 6*time.Second):
			c.Check(false, "restore_returns", "C18/restore-hang/PR-", "restore never returned although the hook timeout expired", nil)
			return
		}

	case "P,R,E", "P,R,I":
		a := park()
		ch, _, _ := restore("AKIA-R1", 5000)
		a.Wait(3 * time.Second)
		h := map[string]string{}
		if d.EType != "" {
			h["Lambda-Runtime-Function-Error-Type"] = d.EType
		}
		var rr *vh.Resp
		if d.Order == "P,R,E" {
			rr = rt.RestoreError([]byte(`{"errorMessage":"hook failed"}`), h)
		} else {
			rr = rt.InitError([]byte(`{"errorMessage":"hook failed"}`), h)
		}
		c.Check(rr.Status == 202, "hook_error_accepted", fmt.Sprintf("C18/hook-error-status/%d", rr.Status), "restore/init error report while restoring was not accepted", nil)
		select {
		case err := <-ch:
			want := specErrType(d.EType)
			ue, ok := err.(interop.ErrRestoreHookUserError)
			good := false
			if ok {
				for _, x := range want {
					if string(ue.UserError.Type) == x {
						good = true
					}
				}
			}
			c.Check(ok && good, "hook_error_sanitised_type", map[bool]string{true: "C18", false: d.As}[d.As == ""]+"/hook-error-type", fmt.Sprintf("restore error %v (type %q), expected the sanitised type %v", err, ue.UserError.Type, want), nil)
		case <-time.After(6 * time.Second):
			c.Check(false, "restore_returns", "C18/restore-hang/error", "restore never returned after the runtime reported an error", nil)
			return
		}

	case "R,P":
		// restore requested before the runtime entered the restore poll: returns at once
		ch, t0, _ := restore("AKIA-R1", 5000)
		select {
		case err := <-ch:
			c.Check(err == nil && time.Since(t0) < 1500*time.Millisecond, "restore_returns_at_once", "C18/restore-without-poll", "restore with no runtime in the restore poll did not return at once / returned an error", fmt.Sprint(err))
		case <-time.After(6 * time.Second):
			c.Check(false, "restore_returns", "C18/restore-hang/RP", "restore blocked although the runtime never entered the restore poll", nil)
			return
		}
		checkCreds("AKIA-R1", "restore-before-poll")

	case "noP":
		// the runtime goes straight to next
		nx := vh.Go(func() *vh.Resp { return rt.Next() })
		vh.Settle(nx, func() bool { return w.E.RuntimeState() == "Ready" }, 3*time.Second)
		ch, t0, _ := restore("AKIA-R1", 5000)
		select {
		case err := <-ch:
			c.Check(err == nil && time.Since(t0) < 1500*time.Millisecond, "restore_returns_at_once", "C18/restore-without-poll/noP", "restore for a runtime that skipped the restore poll did not return at once", fmt.Sprint(err))
		case <-time.After(6 * time.Second):
			c.Check(false, "restore_returns", "C18/restore-hang/noP", "restore blocked", nil)
			return
		}
		// a release would reach the runtime a moment later (HTTP round trip): give it that moment
		c.Check(nx.Wait(300*time.Millisecond) == nil, "next_not_released_by_restore", "C18/next-released-by-restore", "the runtime's next was released by the restore request", nil)

	case "P,R,X":
		a := park()
		ch, _, _ := restore("AKIA-R1", 5000)
		a.Wait(3 * time.Second)
		time.Sleep(2 * time.Millisecond)
		rtp.RequestExit(vh.Exit{Code: 1})
		select {
		case err := <-ch:
			c.Check(err != nil && err.Error() == "Runtime.ExitError", "exit_during_hook", "C18/exit-during-hook/"+fmt.Sprint(err), "runtime exit during the restore hook did not yield Runtime.ExitError", fmt.Sprint(err))
		case <-time.After(6 * time.Second):
			c.Check(false, "restore_returns", "C18/restore-hang/PRX", "restore never returned after the runtime exited", nil)
			return
		}

	case "sweep":
		a := park()
		ch, t0, _ := restore("AKIA-R1", d.HookMs)
		a.Wait(3 * time.Second)
		time.Sleep(time.Until(t0.Add(hook + time.Duration(d.Delta)*time.Millisecond)))
		nx := vh.Go(func() *vh.Resp { return rt.Next() })
		select {
		case err := <-ch:
			ok := err == nil || err.Error() == "Runtime.RestoreHookUserTimeout"
			c.Check(ok, "success_xor_timeout", "C18/sweep-outcome/"+fmt.Sprint(err), "hook completion racing the hook timeout produced neither success nor the timeout error", nil)
			c.Counter("sweep_"+fmt.Sprint(err == nil), 1)
		case <-time.After(hook + 6*time.Second):
			c.Check(false, "restore_returns", "C18/restore-hang/sweep", "restore never returned", nil)
			return
		}
		_ = nx
	}
	_ = finishWithInvoke
	lifecycleOracle(c, w)
	c.SetHooks(w.Hk.Arrived())
	c.SetTrace(d.id(), true)
	if c.WantSample || c.Violated() {
		c.SetSample(sampleLog(w, 80))
	}
}
