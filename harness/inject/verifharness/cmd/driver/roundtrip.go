package main

import (
	"bytes"
	"encoding/json"
	"fmt"
	"io"
	"math/rand"
	"strconv"
	"strings"
	"sync"
	"time"

	"go.amzn.com/lambda/interop"
	"go.amzn.com/verifharness/vh"
)

// Shared runner for C01 (byte-exact round trip, exactly one outcome) and
// C14 (response size limit exact, oversize survivable, event cut at limit).

const maxPayload = interop.MaxPayloadSize // 6 MiB + 100

type rtStep struct {
	Mode     string `json:"mode"` // response | error | crash | timeout | initerror
	EvSize   int    `json:"ev_size"`
	EvKind   string `json:"ev_kind"`
	RespSize int    `json:"resp_size"`
	RespKind string `json:"resp_kind"`
	CC       string `json:"client_context,omitempty"`
	Trace    string `json:"trace,omitempty"`
	CT       string `json:"content_type,omitempty"`
	Chunked  bool   `json:"chunked_upload,omitempty"` // the runtime posts the response without a declared length (Transfer-Encoding: chunked)
}

type rtHist struct {
	Prop    string   `json:"-"`
	Steps   []rtStep `json:"steps"`
	Timeout int64    `json:"timeout_ms"`
	Exts    int      `json:"extensions"`
	Salt    string   `json:"salt"`
	// SlowInitMs: every runtime takes this long before its first next (the first invocation, and the one
	// after a crash, wait for the initialisation): the deadline must still count from the ARRIVAL
	SlowInitMs int `json:"slow_init_ms,omitempty"`
	// DirectProbe: before the history a direct-invoke request with this MaxPayloadSize header is parsed in the same
	// process (the standalone front end has both routes): the buffered path's limit must not depend on it
	DirectProbe string `json:"direct_probe_max_payload,omitempty"`
}

func init() {
	register("C01", genC01)
	register("C14", genC14)
}

var payloadKinds = []string{"json", "allbytes", "badutf8", "nul", "random", "same"}

// makeBody builds size bytes of kind, starting (when it fits) with a unique tag.
func makeBody(tag string, kind string, size int, r *rand.Rand) []byte {
	b := make([]byte, size)
	switch kind {
	case "json":
		pat := []byte(`{"k":"v","n":[1,2,3],"s":"é"} `)
		for i := range b {
			b[i] = pat[i%len(pat)]
		}
	case "allbytes":
		for i := range b {
			b[i] = byte(i)
		}
	case "badutf8":
		pat := []byte{0xff, 0xfe, 0xc0, 0x80, 0xed, 0xa0, 0x80, 'x'}
		for i := range b {
			b[i] = pat[i%len(pat)]
		}
	case "nul":
		// all zero
	case "same":
		for i := range b {
			b[i] = 'A'
		}
		return b // deliberately no tag: equal-length, equal-content bodies
	default:
		r.Read(b)
	}
	t := []byte(tag)
	if len(t) <= size {
		copy(b, t)
	}
	return b
}

func c01Sizes() []int {
	return []int{0, 1, 2, 100, 65535, 65536, 65537, 1 << 20}
}

func genC01(tier string, seed int64) []Case {
	var cases []Case
	add := func(h rtHist) {
		h.Prop = "C01"
		id := fmt.Sprintf("C01/%s", h.Salt)
		cases = append(cases, Case{ID: id, Class: classOfHist(h), Desc: h, Timeout: 400 * time.Second, Run: func(c *Ctx) { runRoundTrip(c, h) }})
	}
	ccs := []string{"", `{"custom":{"a":"b"}}`, `{"k":"é ü 日本"}`, `plain text with spaces; and = signs`, strings.Repeat("x", 3000)}
	// enumerated part: every payload kind x size ladder (decreasing then increasing), response and error modes
	for ki, k := range payloadKinds {
		for _, mode := range []string{"response", "error"} {
			var steps []rtStep
			sizes := []int{65537, 100, 0, 1, 2, 65536}
			if ki%2 == 1 {
				sizes = []int{0, 1, 100, 65535, 2, 1 << 20, 3}
			}
			for i, s := range sizes {
				steps = append(steps, rtStep{Mode: mode, EvSize: s, EvKind: k, RespSize: sizes[len(sizes)-1-i], RespKind: payloadKinds[(ki+i)%len(payloadKinds)], CC: ccs[i%len(ccs)], Trace: fmt.Sprintf("Root=1-%08x-abc;Sampled=1", i)})
			}
			add(rtHist{Steps: steps, Timeout: 30000, Exts: ki % 2, Salt: fmt.Sprintf("enum/%s/%s", k, mode)})
		}
	}
	// positions after failed / timed-out / oversized / init-error invocations
	for _, bad := range []string{"crash", "timeout", "oversize", "initerror"} {
		for pos := 0; pos < 3; pos++ {
			var steps []rtStep
			for i := 0; i < 4; i++ {
				st := rtStep{Mode: "response", EvSize: 200 - 50*i, EvKind: "random", RespSize: 10 + 100*i, RespKind: "json", CC: ccs[(i+pos)%len(ccs)]}
				if i == pos {
					switch bad {
					case "crash", "timeout", "initerror":
						st.Mode = bad
					case "oversize":
						st.RespSize = maxPayload + 1
					}
				}
				steps = append(steps, st)
			}
			if bad == "initerror" && pos != 0 {
				continue
			}
			to := int64(400)
			if bad == "oversize" {
				to = 30000
			}
			add(rtHist{Steps: steps, Timeout: to, Exts: pos % 2, Salt: fmt.Sprintf("after/%s/%d", bad, pos)})
		}
	}
	// big ones: limit-1, limit, limit+1 events and responses in one history
	add(rtHist{Steps: []rtStep{
		{Mode: "response", EvSize: maxPayload, EvKind: "allbytes", RespSize: 5, RespKind: "json"},
		{Mode: "response", EvSize: 7, EvKind: "json", RespSize: maxPayload, RespKind: "random"},
		{Mode: "response", EvSize: maxPayload - 1, EvKind: "random", RespSize: maxPayload - 1, RespKind: "allbytes"},
		{Mode: "error", EvSize: 1, EvKind: "nul", RespSize: 1, RespKind: "nul"},
	}, Timeout: 60000, Salt: "big/limit"})

	// slow initialisation: the first invocation, and the one after a crash, wait ~900 ms before they are delivered
	add(rtHist{Steps: []rtStep{
		{Mode: "response", EvSize: 9, EvKind: "json", RespSize: 5, RespKind: "json"},
		{Mode: "crash", EvSize: 3, EvKind: "json"},
		{Mode: "response", EvSize: 11, EvKind: "json", RespSize: 7, RespKind: "json"},
		{Mode: "response", EvSize: 12, EvKind: "json", RespSize: 8, RespKind: "json"},
	}, Timeout: 5000, Salt: "slow-init", SlowInitMs: 900})
	add(rtHist{Steps: []rtStep{
		{Mode: "error", EvSize: 9, EvKind: "json", RespSize: 5, RespKind: "json"},
		{Mode: "response", EvSize: 11, EvKind: "json", RespSize: 7, RespKind: "json"},
	}, Timeout: 4000, Exts: 1, Salt: "slow-init-ext", SlowInitMs: 700})

	n := 40
	if tier == "thorough" {
		n = 1200
	}
	r := rng(seed, "C01")
	for i := 0; i < n; i++ {
		ns := 3 + r.Intn(6)
		var steps []rtStep
		to := int64(5000)
		hasBig := false
		for j := 0; j < ns; j++ {
			st := rtStep{EvKind: payloadKinds[r.Intn(len(payloadKinds))], RespKind: payloadKinds[r.Intn(len(payloadKinds))]}
			pick := func() int {
				switch r.Intn(10) {
				case 0:
					if !hasBig && r.Intn(4) == 0 {
						hasBig = true
						return maxPayload - r.Intn(3)
					}
					return 1 << 20
				case 1, 2:
					return c01Sizes()[r.Intn(len(c01Sizes()))]
				default:
					return r.Intn(5000)
				}
			}
			st.EvSize, st.RespSize = pick(), pick()
			switch x := r.Intn(20); {
			case x < 11:
				st.Mode = "response"
			case x < 16:
				st.Mode = "error"
			case x < 18:
				st.Mode = "crash"
			case x < 19:
				st.Mode = "timeout"
				to = 1200 // every step of the history shares this timeout: generous enough for a healthy step on a loaded machine
			default:
				st.Mode = "response"
				st.RespSize = maxPayload + 1 + r.Intn(100)
			}
			st.CC = ccs[r.Intn(len(ccs))]
			if r.Intn(3) == 0 {
				st.CC = randomCC(r)
			}
			if r.Intn(2) == 0 {
				st.Trace = fmt.Sprintf("Root=1-%08x-%d;Sampled=1", r.Uint32(), j)
			}
			steps = append(steps, st)
		}
		big := false
		for k := range steps {
			if steps[k].EvSize >= 1<<19 || steps[k].RespSize >= 1<<19 {
				big = true
			}
		}
		if big {
			// multi-megabyte transfers through a race-instrumented stack on a
			// loaded machine need a generous function timeout; a stalled step
			// would then cost that long, so it becomes a crash step instead
			to = 30000
			for k := range steps {
				if steps[k].Mode == "timeout" {
					steps[k].Mode = "crash"
				}
			}
		}
		_ = hasBig
		add(rtHist{Steps: steps, Timeout: to, Exts: r.Intn(3), Salt: fmt.Sprintf("rand/%d/%d", seed, i)})
	}
	return cases
}

func randomCC(r *rand.Rand) string {
	n := 1 + r.Intn(200)
	var sb strings.Builder
	for i := 0; i < n; i++ {
		switch r.Intn(6) {
		case 0:
			sb.WriteRune(rune(0xa1 + r.Intn(0x500)))
		case 1:
			sb.WriteByte(" \t=;,\"{}"[r.Intn(8)])
		default:
			sb.WriteByte(byte(0x21 + r.Intn(0x5e)))
		}
	}
	return strings.Trim(sb.String(), " \t")
}

func genC14(tier string, seed int64) []Case {
	var cases []Case
	add := func(h rtHist) {
		h.Prop = "C14"
		id := fmt.Sprintf("C14/%s", h.Salt)
		cases = append(cases, Case{ID: id, Class: classOfHist(h), Desc: h, Timeout: 400 * time.Second, Run: func(c *Ctx) { runRoundTrip(c, h) }})
	}
	L := maxPayload
	window := []int{L - 2, L - 1, L, L + 1, L + 2}
	small := []int{0, 1, L / 2}
	// response sizes around the limit at every position of a 3-step history
	for pos := 0; pos < 3; pos++ {
		for wi, s := range window {
			steps := make([]rtStep, 3)
			for i := range steps {
				steps[i] = rtStep{Mode: "response", EvSize: 10 + i, EvKind: "json", RespSize: small[(i+wi)%3], RespKind: "allbytes"}
			}
			steps[pos].RespSize = s
			steps[pos].RespKind = payloadKinds[wi%len(payloadKinds)]
			add(rtHist{Steps: steps, Timeout: 60000, Exts: (pos + wi) % 2, Salt: fmt.Sprintf("resp/pos%d/%d", pos, s-L)})
		}
	}
	// event sizes around the limit
	for wi, s := range append(window, L+4096) {
		steps := []rtStep{
			{Mode: "response", EvSize: s, EvKind: payloadKinds[wi%len(payloadKinds)], RespSize: 3, RespKind: "json"},
			{Mode: "response", EvSize: 5, EvKind: "json", RespSize: 4, RespKind: "json"},
		}
		if wi%2 == 1 {
			steps[0], steps[1] = steps[1], steps[0]
		}
		add(rtHist{Steps: steps, Timeout: 60000, Salt: fmt.Sprintf("event/%d", s-L)})
	}
	// the limit does not depend on how the runtime uploads: sizes around it without a declared length
	for wi, sz := range []int{L - 1, L, L + 1, L + 4096} {
		steps := []rtStep{
			{Mode: "response", EvSize: 11, EvKind: "json", RespSize: 7, RespKind: "json", Chunked: true},
			{Mode: "response", EvSize: 12, EvKind: "json", RespSize: sz, RespKind: payloadKinds[wi%len(payloadKinds)], Chunked: true},
			{Mode: "response", EvSize: 13, EvKind: "json", RespSize: L + 1, RespKind: "random"},
			{Mode: "response", EvSize: 14, EvKind: "json", RespSize: 9, RespKind: "json", Chunked: wi%2 == 0},
		}
		add(rtHist{Steps: steps, Timeout: 60000, Exts: wi % 2, Salt: fmt.Sprintf("chunked/%d", sz-L)})
	}
	// oversized twice in a row, oversized error body, 2L
	add(rtHist{Steps: []rtStep{
		{Mode: "response", EvSize: 1, EvKind: "json", RespSize: L + 1, RespKind: "random"},
		{Mode: "response", EvSize: 2, EvKind: "json", RespSize: L + 4096, RespKind: "nul"},
		{Mode: "response", EvSize: 3, EvKind: "json", RespSize: L, RespKind: "random"},
		{Mode: "response", EvSize: 4, EvKind: "json", RespSize: 9, RespKind: "json"},
	}, Timeout: 60000, Exts: 1, Salt: "twice"})
	add(rtHist{Steps: []rtStep{
		{Mode: "response", EvSize: 2 * L, EvKind: "random", RespSize: 2 * L, RespKind: "random"},
		{Mode: "response", EvSize: 3, EvKind: "json", RespSize: 9, RespKind: "json"},
	}, Timeout: 60000, Salt: "double"})
	// a direct-invoke request with its own payload limit was parsed earlier in the same process: the limit of the
	// buffered path stays what it is (smaller and larger direct limits)
	for _, probe := range []string{"1048576", "8388608", "-1"} {
		add(rtHist{Steps: []rtStep{
			{Mode: "response", EvSize: 5, EvKind: "json", RespSize: 2 << 20, RespKind: "random"},
			{Mode: "response", EvSize: 6, EvKind: "json", RespSize: L, RespKind: "allbytes"},
			{Mode: "response", EvSize: 7, EvKind: "json", RespSize: L + 1, RespKind: "random"},
			{Mode: "response", EvSize: 8, EvKind: "json", RespSize: 9, RespKind: "json"},
		}, Timeout: 60000, Salt: "after-direct/" + probe, DirectProbe: probe})
	}
	if tier == "thorough" {
		r := rng(seed, "C14")
		for i := 0; i < 150; i++ {
			ns := 3 + r.Intn(2)
			var steps []rtStep
			for j := 0; j < ns; j++ {
				pick := func() int {
					switch r.Intn(4) {
					case 0:
						return L - 3 + r.Intn(7)
					case 1:
						return L + r.Intn(8192)
					case 2:
						return small[r.Intn(3)]
					}
					return r.Intn(2000)
				}
				steps = append(steps, rtStep{Mode: "response", EvSize: pick(), EvKind: payloadKinds[r.Intn(len(payloadKinds))], RespSize: pick(), RespKind: payloadKinds[r.Intn(len(payloadKinds))], Chunked: r.Intn(3) == 0})
			}
			add(rtHist{Steps: steps, Timeout: 60000, Exts: r.Intn(2), Salt: fmt.Sprintf("rand/%d/%d", seed, i)})
		}
	}
	return cases
}

func classOfHist(h rtHist) string {
	m := map[string]bool{}
	for _, s := range h.Steps {
		k := s.Mode
		if s.RespSize > maxPayload && s.Mode == "response" {
			k = "oversize"
		}
		if s.EvSize > maxPayload {
			k += "+bigevent"
		}
		m[k] = true
	}
	var ks []string
	for _, k := range []string{"response", "error", "crash", "timeout", "oversize", "initerror", "response+bigevent", "oversize+bigevent"} {
		if m[k] {
			ks = append(ks, k)
		}
	}
	return strings.Join(ks, ",")
}

type seen struct {
	ID       string
	Body     []byte
	Hdr      map[string]string
	RetEpoch int64
	PostSt   int
	PostEt   string
	Posted   []byte
	Proc     string
	Again    bool   // the runtime asked for the event a second time before answering
	AgainSt  int    // status of that repeated next
	AgainID  string // request id it carried
	AgainEq  bool   // body identical to the first delivery
	AgainLen int
}

type funcErr struct {
	ErrorType    string `json:"errorType"`
	ErrorMessage string `json:"errorMessage"`
}

func runRoundTrip(c *Ctx, h rtHist) {
	P := h.Prop
	exts := []string{}
	for i := 0; i < h.Exts; i++ {
		exts = append(exts, fmt.Sprintf("ext%d", i))
	}
	w, err := NewWorld(vh.Config{TimeoutMs: h.Timeout, Extensions: exts})
	if err != nil {
		c.Inconclusive("harness: " + err.Error())
		return
	}
	defer w.Close()
	r := rng(c.Seed, h.Salt)

	var mu sync.Mutex
	cur := -1 // index of the step in flight
	seenBy := map[int][]*seen{}
	bodies := make([][]byte, len(h.Steps)) // response bodies to post
	events := make([][]byte, len(h.Steps))
	for i, st := range h.Steps {
		events[i] = makeBody(fmt.Sprintf("EV|%s|%d|", h.Salt, i), st.EvKind, st.EvSize, r)
		bodies[i] = makeBody(fmt.Sprintf("RS|%s|%d|", h.Salt, i), st.RespKind, st.RespSize, r)
	}
	initErrBody := []byte(`{"errorMessage":"init failed","errorType":"Runtime.InitFail","marker":"` + h.Salt + `"}`)
	initErrDone := false

	handle := func(p *vh.Proc, pt *vh.Party, n int, ev *vh.Resp) *vh.Exit {
		mu.Lock()
		i := cur
		mu.Unlock()
		s := &seen{ID: ev.ReqID(), Body: ev.Body, RetEpoch: time.Now().UnixMilli(), Proc: p.Name, Hdr: map[string]string{}}
		for _, k := range []string{"Lambda-Runtime-Invoked-Function-Arn", "Lambda-Runtime-Client-Context", "Lambda-Runtime-Deadline-Ms", "Lambda-Runtime-Trace-Id", "Content-Type"} {
			s.Hdr[k] = ev.Header.Get(k)
		}
		mu.Lock()
		seenBy[i] = append(seenBy[i], s)
		mu.Unlock()
		if i < 0 || i >= len(h.Steps) {
			pt.Respond(ev.ReqID(), []byte("unexpected"), nil)
			return nil
		}
		st := h.Steps[i]
		if (i%3 == 1 || len(events[i]) > maxPayload) && st.Mode != "initerror" {
			// a repeated next before answering returns the same invocation: same id, same (cut) bytes
			r2 := pt.Next()
			mu.Lock()
			s.Again, s.AgainSt, s.AgainID, s.AgainEq, s.AgainLen = true, r2.Status, r2.ReqID(), bytes.Equal(r2.Body, ev.Body), len(r2.Body)
			mu.Unlock()
		}
		switch st.Mode {
		case "response", "initerror":
			var rr *vh.Resp
			if st.Chunked {
				rr = pt.RespondStream(ev.ReqID(), struct{ io.Reader }{bytes.NewReader(bodies[i])}, bodies[i])
			} else {
				rr = pt.Respond(ev.ReqID(), bodies[i], map[string]string{"Content-Type": "application/octet-stream"})
			}
			s.PostSt, s.PostEt, s.Posted = rr.Status, rr.Etype, bodies[i]
		case "error":
			rr := pt.Error(ev.ReqID(), bodies[i], map[string]string{"Content-Type": "application/json", "Lambda-Runtime-Function-Error-Type": "Function.Custom"})
			s.PostSt, s.PostEt, s.Posted = rr.Status, rr.Etype, bodies[i]
		case "crash":
			return &vh.Exit{Code: 1}
		case "timeout":
			return Stall(p)
		}
		return nil
	}
	w.RtPlan = func(gen int, p *vh.Proc) vh.ExecPlan {
		return vh.ExecPlan{Behave: w.RtLoop(RtOpts{
			BeforeFirstNext: func(p *vh.Proc, pt *vh.Party) *vh.Exit {
				if h.SlowInitMs > 0 && !p.Sleep(time.Duration(h.SlowInitMs)*time.Millisecond) {
					return nil
				}
				mu.Lock()
				do := !initErrDone && len(h.Steps) > 0 && h.Steps[0].Mode == "initerror" && gen == 1
				if do {
					initErrDone = true
				}
				mu.Unlock()
				if do {
					pt.InitError(initErrBody, map[string]string{"Lambda-Runtime-Function-Error-Type": "Runtime.InitFail"})
					return &vh.Exit{Code: 1}
				}
				return nil
			},
			Handle: handle,
		})}
	}
	if h.DirectProbe != "" {
		doReceive(diReq{MaxPayload: h.DirectProbe})
	}
	w.E.Init()

	ids := map[string]int{}
	var invs []*vh.Invocation
	arn := "arn:aws:lambda:us-east-1:012345678912:function:fn-" + strings.ReplaceAll(h.Salt, "/", "-")
	execsBefore := 0
	prevHealthy := false
	for i, st := range h.Steps {
		mu.Lock()
		cur = i
		mu.Unlock()
		nexec := len(w.E.Sup.Procs())
		killsBefore := len(vh.Filter(w.E.Log.Snapshot(), func(e vh.Event) bool { return e.Src == "sup" && (e.Kind == "kill" || e.Kind == "term") }))
		callEpoch := time.Now().UnixMilli()
		inv := w.E.InvokeAsync(events[i], vh.InvokeOpts{ARN: arn, ClientContext: st.CC, TraceID: st.Trace, ContentType: st.CT})
		invs = append(invs, inv)
		maxWait := time.Duration(h.Timeout)*time.Millisecond + 2*time.Second + 15*time.Second
		if !inv.Wait(maxWait) {
			c.Check(false, "one_outcome", P+"/invoke-hangs/"+st.Mode, fmt.Sprintf("invocation %d (%s) did not return within timeout+reset allowance+8s", i, st.Mode), nil)
			c.SetSample(sampleLog(w, 150))
			return
		}
		mu.Lock()
		ss := append([]*seen{}, seenBy[i]...)
		mu.Unlock()
		oversize := st.Mode == "response" && st.RespSize > maxPayload
		wantEv := events[i]
		if len(wantEv) > maxPayload {
			wantEv = wantEv[:maxPayload]
		}
		body := inv.W.Body()
		outcome := vh.ErrName(inv.Err)

		// (1) the runtime got the event byte for byte, exactly once
		if st.Mode == "initerror" {
			// init failed: the first invocation replays the runtime's init error payload
			c.Check(outcome == "initfail" || outcome == "invokefail", "initerror_status", P+"/initerror-status/"+outcome, "invocation after a reported init error did not end with a failure status", outcome)
			c.Check(bytes.Equal(body, initErrBody), "initerror_body", P+"/initerror-body", "invocation after /init/error did not carry the runtime's init error payload", trunc(body))
			c.Check(len(ss) == 0, "initerror_no_dispatch", P+"/initerror-dispatch", "event was dispatched although init failed", len(ss))
			prevHealthy = false
			continue
		}
		if !c.Check(len(ss) == 1, "dispatch_once", fmt.Sprintf("%s/dispatch-count/%s/%d", P, st.Mode, len(ss)), fmt.Sprintf("invocation %d was delivered to the runtime %d times", i, len(ss)), nil) {
			if len(ss) == 0 {
				c.SetSample(sampleLog(w, 150))
				continue
			}
		}
		s := ss[0]
		if len(events[i]) > maxPayload {
			c.Check(bytes.Equal(s.Body, wantEv), "event_cut_at_limit", fmt.Sprintf("C14/event-cut/%d", len(s.Body)-maxPayload), fmt.Sprintf("event of %d bytes reached the runtime as %d bytes (limit %d)", len(events[i]), len(s.Body), maxPayload), nil)
		} else {
			c.Check(bytes.Equal(s.Body, wantEv), "event_exact", P+"/event-bytes/"+diffSig(s.Body, wantEv), fmt.Sprintf("runtime received %d bytes, posted %d; first difference at %d", len(s.Body), len(wantEv), firstDiff(s.Body, wantEv)), nil)
		}
		if s.Again {
			c.Check(s.AgainSt == 200 && s.AgainID == s.ID && s.AgainEq, "repeated_next_same_event", fmt.Sprintf("%s/repeated-next/%d-%v-%d", P, s.AgainSt, s.AgainID == s.ID, s.AgainLen-len(s.Body)), fmt.Sprintf("a second next before answering returned status %d, same id %v, %d bytes (first delivery %d bytes, event posted %d bytes)", s.AgainSt, s.AgainID == s.ID, s.AgainLen, len(s.Body), len(events[i])), nil)
		}
		// (2) fresh id, ARN, client context, deadline
		_, dup := ids[s.ID]
		c.Check(!dup && s.ID != "", "fresh_id", P+"/id-reused", "request id was used before on this instance", s.ID)
		ids[s.ID] = i
		c.Check(s.Hdr["Lambda-Runtime-Invoked-Function-Arn"] == arn, "arn", P+"/arn", "function ARN header differs", s.Hdr["Lambda-Runtime-Invoked-Function-Arn"])
		c.Check(s.Hdr["Lambda-Runtime-Client-Context"] == st.CC, "client_context", P+"/client-context", "client context header differs", []string{s.Hdr["Lambda-Runtime-Client-Context"], st.CC})
		if dl, err := strconv.ParseInt(s.Hdr["Lambda-Runtime-Deadline-Ms"], 10, 64); err != nil {
			c.Check(false, "deadline", P+"/deadline-missing", "deadline header missing or not a number", s.Hdr["Lambda-Runtime-Deadline-Ms"])
		} else {
			lo, hi := callEpoch+h.Timeout-50, s.RetEpoch+h.Timeout+50
			c.Check(dl >= lo && dl <= hi, "deadline", P+"/deadline-range", fmt.Sprintf("deadline %d outside [arrival+T-50ms=%d, delivery+T+50ms=%d]", dl, lo, hi), nil)
			// "arrival time plus the timeout": however long the invocation waited for an initialisation.
			// One-sided slack of 400 ms for the harness goroutine that issues the call.
			c.Check(dl <= callEpoch+h.Timeout+400, "deadline_counts_from_arrival", P+"/deadline-late", fmt.Sprintf("deadline is %d ms later than arrival + timeout (the invocation waited %d ms for delivery)", dl-callEpoch-h.Timeout, s.RetEpoch-callEpoch), nil)
		}
		if st.Trace != "" {
			// the no-op tracer does not forward trace ids; only presence of other headers is asserted
			c.Counter("trace_header_"+boolStr(s.Hdr["Lambda-Runtime-Trace-Id"] != ""), 1)
		}

		// (3) the caller got exactly what the runtime posted, (5) one outcome
		switch {
		case oversize:
			c.Check(s.PostSt == 413 && s.PostEt == "RequestEntityTooLarge", "oversize_413", fmt.Sprintf("C14/oversize-status/%d/%s", s.PostSt, s.PostEt), fmt.Sprintf("response of %d bytes (limit+%d) answered %d %s to the runtime", st.RespSize, st.RespSize-maxPayload, s.PostSt, s.PostEt), nil)
			var fe funcErr
			ok := json.Unmarshal(body, &fe) == nil && fe.ErrorType == "Function.ResponseSizeTooLarge"
			c.Check(ok, "oversize_error_type", "C14/oversize-caller-type", "caller did not receive Function.ResponseSizeTooLarge", trunc(body))
			if ok {
				c.Check(strings.Contains(fe.ErrorMessage, fmt.Sprintf("(%d bytes)", st.RespSize)) && strings.Contains(fe.ErrorMessage, fmt.Sprintf("(%d bytes)", maxPayload)) &&
					strings.Index(fe.ErrorMessage, fmt.Sprint(st.RespSize)) < strings.LastIndex(fe.ErrorMessage, fmt.Sprint(maxPayload)),
					"oversize_sizes", "C14/oversize-sizes", "error message does not state the response size and the limit", fe.ErrorMessage)
			}
			c.Check(outcome == "ok", "oversize_no_failure", "C14/oversize-outcome/"+outcome, "oversized response ended the invocation with "+outcome, nil)
		case st.Mode == "response" || st.Mode == "error":
			c.Check(s.PostSt == 202, "accepted", fmt.Sprintf("%s/post-status/%s/%d", P, st.Mode, s.PostSt), fmt.Sprintf("runtime's %s of %d bytes was answered %d %s", st.Mode, st.RespSize, s.PostSt, s.PostEt), nil)
			c.Check(outcome == "ok", "outcome_ok", P+"/outcome/"+st.Mode+"/"+outcome, "healthy invocation ended with "+outcome, nil)
			c.Check(bytes.Equal(body, bodies[i]), "body_exact", P+"/caller-bytes/"+st.Mode+"/"+diffSig(body, bodies[i]), fmt.Sprintf("caller received %d bytes, runtime posted %d; first difference at %d", len(body), len(bodies[i]), firstDiff(body, bodies[i])), nil)
			if st.RespSize >= maxPayload-2 {
				c.Clause("at_limit_intact")
			}
		case st.Mode == "crash":
			c.Check(outcome == "invokefail", "crash_status", P+"/crash-outcome/"+outcome, "runtime crash did not yield a failure status", nil)
			var fe funcErr
			ok := json.Unmarshal(body, &fe) == nil && fe.ErrorType == "Runtime.ExitError" && strings.Contains(fe.ErrorMessage, "RequestId: "+s.ID+" ")
			c.Check(ok, "crash_body", P+"/crash-body", "platform error for a crashed runtime does not name Runtime.ExitError and this request id", trunc(body))
		case st.Mode == "timeout":
			c.Check(outcome == "timeout", "timeout_status", P+"/timeout-outcome/"+outcome, "stalled invocation did not time out", nil)
			c.Check(len(body) == 0, "timeout_body", P+"/timeout-body", "timed-out invocation carried a body", trunc(body))
		}
		// (4) writer discipline
		c.Check(inv.W.NWrites() <= 1, "single_write", fmt.Sprintf("%s/writes/%d", P, inv.W.NWrites()), "reply stream written more than once", nil)

		// C14: no process churn after an oversized response / C01: healthy steps reuse the environment
		healthy := st.Mode == "response" || st.Mode == "error"
		if healthy && prevHealthy && i > 0 {
			newExec := len(w.E.Sup.Procs()) - nexec
			killsNow := len(vh.Filter(w.E.Log.Snapshot(), func(e vh.Event) bool { return e.Src == "sup" && (e.Kind == "kill" || e.Kind == "term") }))
			sig := P + "/env-churn"
			if i > 0 && h.Steps[i-1].RespSize > maxPayload {
				sig = "C14/reset-after-oversize"
			}
			c.Check(newExec == 0 && killsNow == killsBefore && s.Proc == lastProc(seenBy, i-1, &mu), "same_environment", sig, fmt.Sprintf("environment was restarted between two healthy invocations (new execs %d, new kills %d)", newExec, killsNow-killsBefore), nil)
		}
		prevHealthy = healthy
		_ = execsBefore
	}
	// end of history: nothing leaked into other writers, no late writes
	for i, inv := range invs {
		c.Check(inv.W.LateWrites() == 0, "no_late_write", P+"/late-write", "reply stream was written after its invocation returned", i)
		b := inv.W.Body()
		for j := range h.Steps {
			if j == i || len(bodies[j]) < 8 || h.Steps[j].RespKind == "same" {
				continue
			}
			tag := []byte(fmt.Sprintf("RS|%s|%d|", h.Salt, j))
			if bytes.Contains(b, tag) {
				c.Check(false, "no_cross_talk", P+"/cross-talk", fmt.Sprintf("bytes of invocation %d appeared at the caller of invocation %d", j, i), nil)
			}
		}
		c.Clause("no_cross_talk")
	}
	lifecycleOracle(c, w)
	var tr strings.Builder
	for i, st := range h.Steps {
		fmt.Fprintf(&tr, "%s:%d:%d:%s:%d;", st.Mode, st.EvSize, st.RespSize, vh.ErrName(invs[min(i, len(invs)-1)].Err), len(invs[min(i, len(invs)-1)].W.Body()))
	}
	c.SetTrace(tr.String()+NormTrace(w.E.Log.Snapshot(), func(e vh.Event) bool { return e.Src == "sup" || strings.HasPrefix(e.Src, "caller") }), true)
	if c.WantSample || c.Violated() {
		c.SetSample(sampleLog(w, 80))
	}
}

func lastProc(seenBy map[int][]*seen, i int, mu *sync.Mutex) string {
	mu.Lock()
	defer mu.Unlock()
	if ss := seenBy[i]; len(ss) > 0 {
		return ss[len(ss)-1].Proc
	}
	return ""
}

func boolStr(b bool) string {
	if b {
		return "present"
	}
	return "absent"
}

func trunc(b []byte) string {
	if len(b) > 300 {
		return fmt.Sprintf("%q... (%d bytes)", b[:300], len(b))
	}
	return fmt.Sprintf("%q", b)
}

func firstDiff(a, b []byte) int {
	n := len(a)
	if len(b) < n {
		n = len(b)
	}
	for i := 0; i < n; i++ {
		if a[i] != b[i] {
			return i
		}
	}
	if len(a) != len(b) {
		return n
	}
	return -1
}

// diffSig classifies a mismatch: shorter / longer / content
func diffSig(got, want []byte) string {
	switch {
	case len(got) < len(want):
		return "short"
	case len(got) > len(want):
		return "long"
	}
	return "content"
}
