package main

import (
	"context"
	"errors"
	"fmt"
	"regexp"
	"runtime"
	"strings"
	"sync"
	"sync/atomic"
	"time"

	"github.com/anishathalye/porcupine"

	"go.amzn.com/lambda/core"
	"go.amzn.com/lambda/interop"
)

// C11 — the barrier primitive behaves as an atomic counting latch.
// Monitor 1: stepwise differential against an abstract latch, with goroutine
//            wait-state inspection after every operation (lost wake-up,
//            premature return, wrong result).
// Monitor 2: concurrent histories checked for linearizability (porcupine).
// Monitor 3: race detector scoped to gates.go / flow.go (orchestrator).

func init() { register("C11", genC11) }

var errC11 = errors.New("c11-cancel-error")

type latch struct {
	count, arrived int
	cancelled      bool
	err            error
}

func (l *latch) satisfied() bool { return l.arrived == l.count }

// gate operations of the stepwise monitor
var c11Alphabet = []string{"walk", "set0", "set1", "set2", "set3", "reset", "cancel", "cancelE", "clear", "spawn", "reg1"}

type c11Desc struct {
	Kind   string   `json:"kind"` // stepwise | random | flow-init | flow-invoke | porcupine
	Prefix []string `json:"prefix,omitempty"`
	Depth  int      `json:"depth,omitempty"`
	Init   int      `json:"initial_count"`
	N      int      `json:"n,omitempty"`
	Salt   string   `json:"salt,omitempty"`
}

func genC11(tier string, seed int64) []Case {
	var cases []Case
	add := func(id string, d c11Desc, to time.Duration) {
		cases = append(cases, Case{ID: id, Class: d.Kind, Desc: d, Timeout: to, Run: func(c *Ctx) { runC11(c, d) }})
	}
	depth := 4
	if tier == "thorough" {
		depth = 5
	}
	for _, init := range []int{0, 1, 2} {
		for _, a := range c11Alphabet {
			for _, b := range c11Alphabet {
				add(fmt.Sprintf("C11/stepwise/c%d/%s,%s/d%d", init, a, b, depth), c11Desc{Kind: "stepwise", Prefix: []string{a, b}, Depth: depth, Init: init}, 300*time.Second)
			}
		}
	}
	nr, np, nf := 16, 16, 8
	per := 400
	if tier == "thorough" {
		nr, np, nf, per = 64, 64, 32, 1200
	}
	for i := 0; i < nr; i++ {
		add(fmt.Sprintf("C11/random/%d/%d", seed, i), c11Desc{Kind: "random", N: per, Salt: fmt.Sprintf("r%d", i)}, 300*time.Second)
	}
	for i := 0; i < nf; i++ {
		add(fmt.Sprintf("C11/flow-init/%d/%d", seed, i), c11Desc{Kind: "flow-init", N: per / 2, Salt: fmt.Sprintf("fi%d", i)}, 300*time.Second)
		add(fmt.Sprintf("C11/flow-invoke/%d/%d", seed, i), c11Desc{Kind: "flow-invoke", N: per / 2, Salt: fmt.Sprintf("fv%d", i)}, 300*time.Second)
	}
	for i := 0; i < np; i++ {
		add(fmt.Sprintf("C11/porcupine/%d/%d", seed, i), c11Desc{Kind: "porcupine", N: per / 3, Salt: fmt.Sprintf("p%d", i)}, 300*time.Second)
	}
	return cases
}

// ---- wait-state inspection ----

var reGoroutine = regexp.MustCompile(`(?m)^goroutine (\d+) \[([^\]]+)\]:`)

// parkedWaiters counts goroutines blocked in sync.Cond.Wait inside the frame marker.
func parkedWaiters(marker string) int {
	buf := make([]byte, 1<<20)
	n := runtime.Stack(buf, true)
	cnt := 0
	for _, blk := range strings.Split(string(buf[:n]), "\n\n") {
		m := reGoroutine.FindStringSubmatch(blk)
		if m == nil {
			continue
		}
		if strings.HasPrefix(m[2], "sync.Cond.Wait") && strings.Contains(blk, marker) {
			cnt++
		}
	}
	return cnt
}

type waiterSet struct {
	started  int
	finished int
	results  chan error
	got      []error
	marker   string
}

func newWaiterSet(marker string) *waiterSet {
	return &waiterSet{results: make(chan error, 64), marker: marker}
}

func (ws *waiterSet) spawn(f func() error) {
	ws.started++
	go func() { ws.results <- f() }()
}

// settle waits until every waiter has either returned or is parked; returns
// the number parked, or -1 if it does not settle.
func (ws *waiterSet) settle() int {
	deadline := time.Now().Add(3 * time.Second)
	for {
		for {
			select {
			case e := <-ws.results:
				ws.finished++
				ws.got = append(ws.got, e)
				continue
			default:
			}
			break
		}
		out := ws.started - ws.finished
		if out == 0 {
			return 0
		}
		p := parkedWaiters(ws.marker)
		if p == out {
			// double check nothing finished meanwhile
			select {
			case e := <-ws.results:
				ws.finished++
				ws.got = append(ws.got, e)
				continue
			default:
			}
			return p
		}
		if time.Now().After(deadline) {
			return -1
		}
		runtime.Gosched()
		time.Sleep(20 * time.Microsecond)
	}
}

func errKind(e error) string {
	switch {
	case e == nil:
		return "nil"
	case e == core.ErrGateCanceled:
		return "ErrGateCanceled"
	case e == core.ErrGateIntegrity:
		return "ErrGateIntegrity"
	case e == errC11:
		return "custom"
	case e == interop.ErrRestoreHookTimeout:
		return "hooktimeout"
	}
	return "other:" + e.Error()
}

// applyGate applies op to the real gate and the model; returns false on a divergence.
func stepGate(c *Ctx, g core.Gate, m *latch, ws *waiterSet, op string, trace []string) bool {
	var realErr, modelErr error
	switch op {
	case "walk":
		realErr = g.WalkThrough()
		if m.arrived == m.count {
			modelErr = core.ErrGateIntegrity
		} else {
			m.arrived++
		}
	case "set0", "set1", "set2", "set3":
		n := int(op[3] - '0')
		realErr = g.SetCount(uint16(n))
		if n < m.arrived {
			modelErr = core.ErrGateIntegrity
		} else {
			m.count = n
		}
	case "reg1":
		g.Register(1)
		m.count++
	case "reset":
		g.Reset()
		if !m.cancelled {
			m.arrived = 0
		}
	case "cancel":
		g.CancelWithError(nil)
		m.cancelled, m.err = true, nil
	case "cancelE":
		g.CancelWithError(errC11)
		m.cancelled, m.err = true, errC11
	case "clear":
		g.Clear()
		m.cancelled, m.err, m.arrived = false, nil, 0
	case "spawn":
		if ws.started-ws.finished >= 3 {
			return true
		}
		ws.spawn(g.AwaitGateCondition)
	}
	if op != "spawn" && op != "reg1" && op != "reset" && op != "cancel" && op != "cancelE" && op != "clear" {
		if !c.Check(errKind(realErr) == errKind(modelErr), "operation_result", fmt.Sprintf("C11/op-result/%s/%s-vs-%s", op[:3], errKind(realErr), errKind(modelErr)),
			fmt.Sprintf("%s returned %s, latch model says %s (count=%d arrived=%d) after %v", op, errKind(realErr), errKind(modelErr), m.count, m.arrived, trace), nil) {
			return false
		}
	}
	// waiters: compare with the model
	before := len(ws.got)
	parked := ws.settle()
	if parked < 0 {
		c.Inconclusive("waiters did not settle")
		return false
	}
	wantErr := "nil"
	shouldRelease := false
	if m.cancelled {
		shouldRelease = true
		wantErr = "ErrGateCanceled"
		if m.err != nil {
			wantErr = errKind(m.err)
		}
	} else if m.satisfied() {
		shouldRelease = true
	}
	if shouldRelease {
		if !c.Check(parked == 0, "no_lost_wakeup", "C11/lost-wakeup/"+op[:3], fmt.Sprintf("%d waiter(s) still blocked although the latch condition holds (count=%d arrived=%d cancelled=%v) after %v", parked, m.count, m.arrived, m.cancelled, trace), nil) {
			return false
		}
	} else {
		if !c.Check(len(ws.got) == before, "no_premature_return", "C11/premature-return/"+op[:3], fmt.Sprintf("a waiter returned although arrivals (%d) != count (%d) and the latch is not cancelled, after %v", m.arrived, m.count, trace), nil) {
			return false
		}
	}
	for _, e := range ws.got[before:] {
		if !c.Check(errKind(e) == wantErr, "waiter_result", fmt.Sprintf("C11/waiter-result/%s-vs-%s", errKind(e), wantErr), fmt.Sprintf("waiter returned %s, model says %s after %v", errKind(e), wantErr, trace), nil) {
			return false
		}
	}
	return true
}

func runC11(c *Ctx, d c11Desc) {
	switch d.Kind {
	case "stepwise":
		runC11Stepwise(c, d)
	case "random":
		runC11Random(c, d)
	case "flow-init", "flow-invoke":
		runC11Flow(c, d)
	case "porcupine":
		runC11Porcupine(c, d)
	}
}

func runOneSequence(c *Ctx, init int, seq []string) bool {
	g := core.NewGate(uint16(init))
	m := &latch{count: init}
	ws := newWaiterSet("gateImpl).AwaitGateCondition")
	ok := true
	for i, op := range seq {
		if !stepGate(c, g, m, ws, op, seq[:i+1]) {
			ok = false
			break
		}
	}
	// release whatever is still parked so that goroutines do not accumulate
	g.CancelWithError(nil)
	for ws.finished < ws.started {
		select {
		case e := <-ws.results:
			ws.finished++
			_ = e
		case <-time.After(2 * time.Second):
			c.Check(false, "cancel_releases_all", "C11/cancel-does-not-release", "a waiter stayed blocked after the final cancel", seq)
			return false
		}
	}
	return ok
}

func runC11Stepwise(c *Ctx, d c11Desc) {
	n := 0
	var rec func(seq []string) bool
	rec = func(seq []string) bool {
		if len(seq) == d.Depth {
			n++
			return runOneSequence(c, d.Init, seq)
		}
		for _, op := range c11Alphabet {
			if !rec(append(seq, op)) {
				return false
			}
		}
		return true
	}
	rec(append([]string{}, d.Prefix...))
	c.Counter("sequences", n)
	c.SetTrace(fmt.Sprintf("stepwise c%d %v d%d n%d", d.Init, d.Prefix, d.Depth, n), n > 0)
	c.SetSample(map[string]interface{}{"prefix": d.Prefix, "depth": d.Depth, "sequences": n, "example": append(append([]string{}, d.Prefix...), "spawn", "walk")})
}

func runC11Random(c *Ctx, d c11Desc) {
	r := rng(c.Seed, d.Salt)
	var last []string
	for i := 0; i < d.N; i++ {
		l := 6 + r.Intn(7)
		seq := make([]string, l)
		for j := range seq {
			seq[j] = c11Alphabet[r.Intn(len(c11Alphabet))]
			if r.Intn(3) == 0 {
				seq[j] = "spawn"
			}
		}
		last = seq
		if !runOneSequence(c, r.Intn(4), seq) {
			break
		}
	}
	c.Counter("sequences", d.N)
	c.SetTrace("random "+d.Salt+strings.Join(last, ","), true)
	c.SetSample(last)
}

// ---- flows: product of latches ----

func runC11Flow(c *Ctx, d c11Desc) {
	r := rng(c.Seed, d.Salt)
	var last []string
	for i := 0; i < d.N && !c.Violated(); i++ {
		var seq []string
		if d.Kind == "flow-init" {
			seq = runInitFlowSequence(c, r.Intn(1<<30))
		} else {
			seq = runInvokeFlowSequence(c, r.Intn(1<<30))
		}
		last = seq
	}
	c.Counter("sequences", d.N)
	c.SetTrace(d.Kind+d.Salt+strings.Join(last, ","), true)
	c.SetSample(last)
}

type flowGate struct {
	name  string
	m     *latch
	ws    *waiterSet
	await func() error
	walk  func() error
	set   func(uint16) error
}

func checkFlowWaiters(c *Ctx, gs []*flowGate, trace []string) bool {
	for _, g := range gs {
		before := len(g.ws.got)
		parked := g.ws.settle()
		if parked < 0 {
			c.Inconclusive("flow waiters did not settle")
			return false
		}
		release := g.m.cancelled || g.m.satisfied()
		want := "nil"
		if g.m.cancelled {
			want = "ErrGateCanceled"
			if g.m.err != nil {
				want = errKind(g.m.err)
			}
		}
		if release {
			if !c.Check(parked == 0, "flow_no_lost_wakeup", "C11/flow-lost-wakeup/"+g.name, fmt.Sprintf("waiter on %s still blocked although its condition holds, after %v", g.name, trace), nil) {
				return false
			}
		} else if !c.Check(len(g.ws.got) == before, "flow_no_premature_return", "C11/flow-premature-return/"+g.name, fmt.Sprintf("waiter on %s returned early after %v", g.name, trace), nil) {
			return false
		}
		for _, e := range g.ws.got[before:] {
			if !c.Check(errKind(e) == want, "flow_waiter_result", fmt.Sprintf("C11/flow-waiter-result/%s/%s-vs-%s", g.name, errKind(e), want), fmt.Sprintf("waiter on %s returned %s, model %s after %v", g.name, errKind(e), want, trace), nil) {
				return false
			}
		}
	}
	return true
}

func runInitFlowSequence(c *Ctx, s int) []string {
	f := core.NewInitFlowSynchronization()
	r := rng(int64(s), "initflow")
	const maxU16 = 65535
	gs := []*flowGate{
		{name: "externalAgentsRegistered", m: &latch{count: 0}, await: f.AwaitExternalAgentsRegistered, walk: f.ExternalAgentRegistered, set: f.SetExternalAgentsRegisterCount},
		{name: "runtimeReady", m: &latch{count: 1}, await: f.AwaitRuntimeReady, walk: f.RuntimeReady},
		{name: "agentReady", m: &latch{count: maxU16}, await: f.AwaitAgentsReady, walk: f.AgentReady, set: f.SetAgentsReadyCount},
		{name: "runtimeRestoreReady", m: &latch{count: 1}, await: f.AwaitRuntimeRestoreReady, walk: f.RuntimeRestoreReady},
	}
	markers := map[string]string{"externalAgentsRegistered": "AwaitExternalAgentsRegistered", "runtimeReady": "AwaitRuntimeReady", "agentReady": "AwaitAgentsReady", "runtimeRestoreReady": "AwaitRuntimeRestoreReady"}
	for _, g := range gs {
		g.ws = newWaiterSet("initFlowSynchronizationImpl)." + markers[g.name] + "(")
	}
	var trace []string
	n := 5 + r.Intn(8)
	for i := 0; i < n; i++ {
		g := gs[r.Intn(len(gs))]
		switch k := r.Intn(9); {
		case k < 3:
			trace = append(trace, "walk:"+g.name)
			re := g.walk()
			var me error
			if g.m.arrived == g.m.count {
				me = core.ErrGateIntegrity
			} else {
				g.m.arrived++
			}
			if !c.Check(errKind(re) == errKind(me), "flow_operation_result", "C11/flow-op-result/walk/"+g.name, fmt.Sprintf("walk on %s returned %s, model %s after %v", g.name, errKind(re), errKind(me), trace), nil) {
				return trace
			}
		case k < 5 && g.set != nil:
			cnt := r.Intn(4)
			trace = append(trace, fmt.Sprintf("set%d:%s", cnt, g.name))
			re := g.set(uint16(cnt))
			var me error
			if cnt < g.m.arrived {
				me = core.ErrGateIntegrity
			} else {
				g.m.count = cnt
			}
			if !c.Check(errKind(re) == errKind(me), "flow_operation_result", "C11/flow-op-result/set/"+g.name, fmt.Sprintf("set count on %s returned %s, model %s after %v", g.name, errKind(re), errKind(me), trace), nil) {
				return trace
			}
		case k == 5:
			var e error
			if r.Intn(2) == 0 {
				e = errC11
			}
			trace = append(trace, "cancel:"+errKind(e))
			f.CancelWithError(e)
			for _, x := range gs {
				x.m.cancelled, x.m.err = true, e
			}
		case k == 6:
			trace = append(trace, "clear")
			f.Clear()
			for _, x := range gs {
				x.m.cancelled, x.m.err, x.m.arrived = false, nil, 0
				if x.name == "agentReady" {
					// a cleared init flow is as new: the number of agents of the next initialisation is not
					// known yet (defect D17: the count of the previous initialisation used to survive)
					x.m.count = maxU16
				}
			}
		case k == 7 && g.name == "runtimeReady":
			// expired deadline: returns the hook timeout and cancels the whole flow with it — unless the gate is already satisfied/cancelled
			trace = append(trace, "awaitDeadline(expired)")
			ctx, cancel := context.WithDeadline(context.Background(), time.Now().Add(-time.Second))
			re := f.AwaitRuntimeReadyWithDeadline(ctx)
			cancel()
			// either outcome of the select is legal when the gate is already open
			open := g.m.cancelled || g.m.satisfied()
			if !open {
				if !c.Check(re == interop.ErrRestoreHookTimeout, "deadline_await", "C11/deadline-await/"+errKind(re), "expired deadline did not yield the hook timeout error", trace) {
					return trace
				}
				for _, x := range gs {
					x.m.cancelled, x.m.err = true, interop.ErrRestoreHookTimeout
				}
			} else if re == interop.ErrRestoreHookTimeout {
				for _, x := range gs {
					x.m.cancelled, x.m.err = true, interop.ErrRestoreHookTimeout
				}
			}
			// the helper goroutine inside leaves one waiter that the flow's own cancellation releases
			time.Sleep(200 * time.Microsecond)
		default:
			if g.ws.started-g.ws.finished < 2 {
				trace = append(trace, "spawn:"+g.name)
				g.ws.spawn(g.await)
			}
		}
		if !checkFlowWaiters(c, gs, trace) {
			break
		}
	}
	f.CancelWithError(nil)
	for _, g := range gs {
		for g.ws.finished < g.ws.started {
			select {
			case <-g.ws.results:
				g.ws.finished++
			case <-time.After(2 * time.Second):
				c.Check(false, "cancel_releases_all", "C11/flow-cancel-does-not-release/"+g.name, "flow cancel did not release a waiter", trace)
				return trace
			}
		}
	}
	return trace
}

func runInvokeFlowSequence(c *Ctx, s int) []string {
	f := core.NewInvokeFlowSynchronization()
	r := rng(int64(s), "invokeflow")
	const maxU16 = 65535
	gs := []*flowGate{
		{name: "runtimeReady", m: &latch{count: 1}, await: f.AwaitRuntimeReady, walk: func() error { return f.RuntimeReady(nil) }},
		{name: "runtimeResponse", m: &latch{count: 1}, await: f.AwaitRuntimeResponse, walk: func() error { return f.RuntimeResponse(nil) }},
		{name: "agentReady", m: &latch{count: maxU16}, await: f.AwaitAgentsReady, walk: f.AgentReady, set: f.SetAgentsReadyCount},
	}
	markers := map[string]string{"runtimeReady": "AwaitRuntimeReady", "runtimeResponse": "AwaitRuntimeResponse", "agentReady": "AwaitAgentsReady"}
	for _, g := range gs {
		g.ws = newWaiterSet("invokeFlowSynchronizationImpl)." + markers[g.name] + "(")
	}
	var trace []string
	n := 5 + r.Intn(8)
	for i := 0; i < n; i++ {
		g := gs[r.Intn(len(gs))]
		switch k := r.Intn(9); {
		case k < 3:
			trace = append(trace, "walk:"+g.name)
			re := g.walk()
			var me error
			if g.m.arrived == g.m.count {
				me = core.ErrGateIntegrity
			} else {
				g.m.arrived++
			}
			if !c.Check(errKind(re) == errKind(me), "flow_operation_result", "C11/flow-op-result/walk/"+g.name, fmt.Sprintf("walk on %s returned %s, model %s after %v", g.name, errKind(re), errKind(me), trace), nil) {
				return trace
			}
		case k == 3 && g.set != nil:
			cnt := r.Intn(4)
			trace = append(trace, fmt.Sprintf("set%d:%s", cnt, g.name))
			re := g.set(uint16(cnt))
			var me error
			if cnt < g.m.arrived {
				me = core.ErrGateIntegrity
			} else {
				g.m.count = cnt
			}
			if !c.Check(errKind(re) == errKind(me), "flow_operation_result", "C11/flow-op-result/set/"+g.name, fmt.Sprintf("set count returned %s, model %s after %v", errKind(re), errKind(me), trace), nil) {
				return trace
			}
		case k == 4:
			trace = append(trace, "initializeBarriers")
			f.InitializeBarriers()
			for _, x := range gs {
				if !x.m.cancelled {
					x.m.arrived = 0
				}
			}
		case k == 5:
			var e error
			if r.Intn(2) == 0 {
				e = errC11
			}
			trace = append(trace, "cancel:"+errKind(e))
			f.CancelWithError(e)
			for _, x := range gs {
				x.m.cancelled, x.m.err = true, e
			}
		case k == 6:
			trace = append(trace, "clear")
			f.Clear()
			for _, x := range gs {
				x.m.cancelled, x.m.err, x.m.arrived = false, nil, 0
			}
		default:
			if g.ws.started-g.ws.finished < 2 {
				trace = append(trace, "spawn:"+g.name)
				g.ws.spawn(g.await)
			}
		}
		if !checkFlowWaiters(c, gs, trace) {
			break
		}
	}
	f.CancelWithError(nil)
	for _, g := range gs {
		for g.ws.finished < g.ws.started {
			select {
			case <-g.ws.results:
				g.ws.finished++
			case <-time.After(2 * time.Second):
				c.Check(false, "cancel_releases_all", "C11/flow-cancel-does-not-release/"+g.name, "flow cancel did not release a waiter", trace)
				return trace
			}
		}
	}
	return trace
}

// ---- porcupine: linearizability of concurrent histories ----

type pcIn struct {
	Op  string
	Arg int
}

type pcState struct {
	Count, Arrived int
	Cancelled      bool
	Err            string // "nil" or "custom"
}

var c11Model = porcupine.Model{
	Init: func() interface{} { return pcState{Count: 2} },
	Step: func(st, in, out interface{}) (bool, interface{}) {
		s := st.(pcState)
		i := in.(pcIn)
		o := out.(string)
		switch i.Op {
		case "walk":
			if s.Arrived == s.Count {
				return o == "ErrGateIntegrity", s
			}
			s.Arrived++
			return o == "nil", s
		case "set":
			if i.Arg < s.Arrived {
				return o == "ErrGateIntegrity", s
			}
			s.Count = i.Arg
			return o == "nil", s
		case "reset":
			if !s.Cancelled {
				s.Arrived = 0
			}
			return true, s
		case "cancel":
			s.Cancelled = true
			s.Err = "ErrGateCanceled"
			if i.Arg == 1 {
				s.Err = "custom"
			}
			return true, s
		case "clear":
			s.Cancelled, s.Err, s.Arrived = false, "", 0
			return true, s
		case "await":
			// the waiter's linearisation point: it saw the latch open
			if s.Cancelled {
				return o == s.Err, s
			}
			return o == "nil" && s.Arrived == s.Count, s
		}
		return false, s
	},
	Equal: func(a, b interface{}) bool { return a.(pcState) == b.(pcState) },
	DescribeOperation: func(in, out interface{}) string {
		return fmt.Sprintf("%v -> %v", in, out)
	},
}

func runC11Porcupine(c *Ctx, d c11Desc) {
	r := rng(c.Seed, d.Salt)
	var clock atomic.Int64
	checked := 0
	for h := 0; h < d.N && !c.Violated(); h++ {
		g := core.NewGate(2)
		nThreads := 4 + r.Intn(3)
		var mu sync.Mutex
		var ops []porcupine.Operation
		var wg sync.WaitGroup
		plans := make([][]pcIn, nThreads)
		for t := range plans {
			for k := 0; k < 6+r.Intn(5); k++ {
				var in pcIn
				switch x := r.Intn(12); {
				case x < 4:
					in = pcIn{"walk", 0}
				case x < 6:
					in = pcIn{"set", r.Intn(4)}
				case x < 7:
					in = pcIn{"reset", 0}
				case x < 8:
					in = pcIn{"cancel", r.Intn(2)}
				case x < 9:
					in = pcIn{"clear", 0}
				default:
					in = pcIn{"await", 0}
				}
				plans[t] = append(plans[t], in)
			}
		}
		var awaiting sync.WaitGroup
		for t := 0; t < nThreads; t++ {
			wg.Add(1)
			go func(t int) {
				defer wg.Done()
				for _, in := range plans[t] {
					call := clock.Add(1)
					var out string
					switch in.Op {
					case "walk":
						out = errKind(g.WalkThrough())
					case "set":
						out = errKind(g.SetCount(uint16(in.Arg)))
					case "reset":
						g.Reset()
						out = "nil"
					case "cancel":
						if in.Arg == 1 {
							g.CancelWithError(errC11)
						} else {
							g.CancelWithError(nil)
						}
						out = "nil"
					case "clear":
						g.Clear()
						out = "nil"
					case "await":
						// waiters run on their own goroutines (they may block for long)
						awaiting.Add(1)
						go func(call int64) {
							defer awaiting.Done()
							o := errKind(g.AwaitGateCondition())
							ret := clock.Add(1)
							mu.Lock()
							ops = append(ops, porcupine.Operation{ClientId: 100 + int(call%64), Input: pcIn{"await", 0}, Call: call, Output: o, Return: ret})
							mu.Unlock()
						}(call)
						continue
					}
					ret := clock.Add(1)
					mu.Lock()
					ops = append(ops, porcupine.Operation{ClientId: t, Input: in, Call: call, Output: out, Return: ret})
					mu.Unlock()
				}
			}(t)
		}
		wg.Wait()
		// release the remaining waiters with a final cancel, recorded as an operation
		call := clock.Add(1)
		g.CancelWithError(nil)
		ret := clock.Add(1)
		mu.Lock()
		ops = append(ops, porcupine.Operation{ClientId: 99, Input: pcIn{"cancel", 0}, Call: call, Output: "nil", Return: ret})
		mu.Unlock()
		done := make(chan struct{})
		go func() { awaiting.Wait(); close(done) }()
		select {
		case <-done:
		case <-time.After(3 * time.Second):
			c.Check(false, "cancel_releases_all", "C11/concurrent-cancel-does-not-release", "a waiter stayed blocked after the final cancel of a concurrent history", nil)
			return
		}
		// client ids must be unique per concurrent operation for porcupine: renumber
		for i := range ops {
			ops[i].ClientId = i
		}
		res, _ := porcupine.CheckOperationsVerbose(c11Model, ops, 10*time.Second)
		checked++
		switch res {
		case porcupine.Illegal:
			var hs []string
			for _, o := range ops {
				hs = append(hs, fmt.Sprintf("[%d,%d] %v -> %v", o.Call, o.Return, o.Input, o.Output))
			}
			c.Check(false, "linearizable", "C11/not-linearizable", "a concurrent history of gate operations is not linearizable with respect to the latch model", hs)
		case porcupine.Unknown:
			c.Inconclusive("porcupine timeout")
		default:
			c.Clause("linearizable")
		}
	}
	c.Counter("histories", checked)
	c.SetTrace("porcupine"+d.Salt, checked > 0)
	c.SetSample(map[string]interface{}{"histories": checked, "threads": "4-6", "ops_per_thread": "6-10"})
}
