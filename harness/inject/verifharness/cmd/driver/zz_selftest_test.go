package main

// Oracle self-tests on synthetic logs: a hand-written conforming trace must pass, and for each
// clause a hand-written violating trace must be flagged with the expected signature. Run by
// /verif/setup.sh (go test -tags verif -run TestOracleSelf), so that an oracle that cannot fire -
// or that fires on a conforming trace - is found before its verdicts are trusted.

import (
	"strings"
	"testing"
	"time"

	"github.com/anishathalye/porcupine"

	"go.amzn.com/verifharness/vh"
)

type synth struct{ evs []vh.Event }

func (s *synth) add(src, kind, op string, f func(e *vh.Event)) int64 {
	e := vh.Event{Seq: int64(len(s.evs) + 1), Src: src, Kind: kind, Op: op}
	if f != nil {
		f(&e)
	}
	s.evs = append(s.evs, e)
	return e.Seq
}

func x(kv ...string) func(e *vh.Event) {
	return func(e *vh.Event) {
		e.Extra = map[string]string{}
		for i := 0; i+1 < len(kv); i += 2 {
			e.Extra[kv[i]] = kv[i+1]
		}
	}
}

// healthyTrace builds: init with one external extension, one successful invocation. The mutate
// callback may drop or alter events by label.
func healthyTrace(mut func(label string, e *vh.Event) bool) []vh.Event {
	s := &synth{}
	emit := func(label, src, kind, op string, f func(e *vh.Event)) int64 {
		e := vh.Event{Src: src, Kind: kind, Op: op}
		if f != nil {
			f(&e)
		}
		if mut != nil && !mut(label, &e) {
			return 0
		}
		e.Seq = int64(len(s.evs) + 1)
		s.evs = append(s.evs, e)
		return e.Seq
	}
	ref := func(seq int64, st int) func(e *vh.Event) {
		return func(e *vh.Event) { e.Ref, e.Status = seq, st }
	}
	emit("initstart", "events", "evt", "InitStart", x("phase", "init"))
	emit("execext", "sup", "exec", "extension-ext0-1", nil)
	reg := emit("register", "ext:extension-ext0-1", "call", "register", x("name", "ext0", "body", `{"events":["INVOKE"]}`))
	emit("registerret", "ext:extension-ext0-1", "ret", "register", ref(reg, 200))
	emit("execrt", "sup", "exec", "runtime-1", nil)
	emit("extnext", "ext:extension-ext0-1", "call", "extnext", nil)
	nx := emit("next", "rt:runtime-1", "call", "next", nil)
	emit("initrtdone", "events", "evt", "InitRuntimeDone", x("phase", "init", "status", "success"))
	emit("extline", "events", "evt", "ExtensionInit", x("name", "ext0", "state", "Ready", "subs", "INVOKE"))
	emit("initreport", "events", "evt", "InitReport", x("phase", "init"))
	emit("invoke", "caller:1", "call", "invoke", nil)
	emit("setid", "events", "evt", "SetCurrentRequestID", func(e *vh.Event) { e.ID = "R1" })
	emit("invokestart", "events", "evt", "InvokeStart", func(e *vh.Event) { e.ID = "R1" })
	emit("nextret", "rt:runtime-1", "ret", "next", func(e *vh.Event) { e.Ref, e.Status, e.ID = nx, 200, "R1" })
	rs := emit("response", "rt:runtime-1", "call", "response", func(e *vh.Event) { e.ID = "R1" })
	emit("responseret", "rt:runtime-1", "ret", "response", ref(rs, 202))
	emit("next2", "rt:runtime-1", "call", "next", nil)
	emit("invokedone", "events", "evt", "InvokeRuntimeDone", x("status", "success"))
	emit("invokeret", "caller:1", "ret", "invoke", nil)
	return s.evs
}

func sigsOf(evs []vh.Event) []string {
	c := &Ctx{}
	lifecycleOracleOn(c, evs, []string{"ext0"})
	return c.Sigs()
}

func hasPrefix(sigs []string, p string) bool {
	for _, s := range sigs {
		if strings.HasPrefix(s, p) {
			return true
		}
	}
	return false
}

func TestOracleSelfLifecycle(t *testing.T) {
	if s := sigsOf(healthyTrace(nil)); len(s) != 0 {
		t.Fatalf("conforming trace flagged: %v", s)
	}
	drop := func(label string) func(string, *vh.Event) bool {
		return func(l string, e *vh.Event) bool { return l != label }
	}
	alter := func(label string, f func(e *vh.Event)) func(string, *vh.Event) bool {
		return func(l string, e *vh.Event) bool {
			if l == label {
				f(e)
			}
			return true
		}
	}
	cases := []struct {
		name string
		mut  func(string, *vh.Event) bool
		want string
	}{
		{"success without return to next", drop("next2"), "C15/invoke-success-untrue"},
		{"success without a posted response", drop("response"), "C15/invoke-success-untrue"},
		{"no invoke-start", drop("invokestart"), "C15/invoke-start-count/0"},
		{"runtime-done before start", drop("invokestart"), "C15/runtime-done-before-start"},
		{"no init-report", drop("initreport"), "C15/"},
		{"init success without next", drop("next"), "C15/init-success-without-next"},
		{"Ready without next", drop("extnext"), "C15/ext-state/Ready-without-next"},
		{"wrong subscriptions", alter("extline", func(e *vh.Event) { e.Extra["subs"] = "INVOKE,SHUTDOWN" }), "C15/ext-subscriptions"},
		{"unknown extension line", alter("extline", func(e *vh.Event) { e.Extra["name"] = "ghost" }), "C15/unknown-extension-line"},
		{"missing extension line", drop("extline"), "C15/missing-extension-line"},
		{"wrong phase tag", alter("initstart", func(e *vh.Event) { e.Extra["phase"] = "invoke" }), "C15/phase/"},
		{"error type without fault", alter("initrtdone", func(e *vh.Event) { e.Extra["status"] = "error"; e.Etype = "Extension.Crash" }), "C15/init-error-type/Extension.Crash-expected-Runtime.Unknown"},
		{"start for another id", alter("invokestart", func(e *vh.Event) { e.ID = "R9" }), "C15/invoke-start-wrong-id"},
	}
	for _, tc := range cases {
		got := sigsOf(healthyTrace(tc.mut))
		if !hasPrefix(got, tc.want) {
			t.Errorf("%s: expected a violation %s*, got %v", tc.name, tc.want, got)
		}
	}

	// an error report that was REFUSED is not a fault; one that was accepted is
	report := func(status int, etype string) []vh.Event {
		s := &synth{}
		s.add("events", "evt", "InitStart", x("phase", "init"))
		s.add("sup", "exec", "extension-ext0-1", nil)
		reg := s.add("ext:extension-ext0-1", "call", "register", x("name", "ext0", "body", `{"events":[]}`))
		s.add("ext:extension-ext0-1", "ret", "register", func(e *vh.Event) { e.Ref, e.Status = reg, 200 })
		ie := s.add("ext:extension-ext0-1", "call", "extiniterror", nil)
		s.add("ext:extension-ext0-1", "ret", "extiniterror", func(e *vh.Event) { e.Ref, e.Status = ie, status })
		s.add("events", "evt", "InitRuntimeDone", func(e *vh.Event) {
			e.Extra = map[string]string{"phase": "init", "status": "error"}
			e.Etype = etype
		})
		st := "Registered"
		if status == 202 {
			st = "InitError"
		}
		s.add("events", "evt", "ExtensionInit", x("name", "ext0", "state", st, "subs", ""))
		s.add("events", "evt", "InitReport", x("phase", "init"))
		return s.evs
	}
	if got := sigsOf(report(403, "Runtime.Unknown")); len(got) != 0 {
		t.Errorf("refused error report + Runtime.Unknown flagged: %v", got)
	}
	if got := sigsOf(report(202, "Extension.InitError")); len(got) != 0 {
		t.Errorf("accepted error report + Extension.InitError flagged: %v", got)
	}
	if got := sigsOf(report(202, "Runtime.Unknown")); !hasPrefix(got, "C15/init-error-type/Runtime.Unknown-expected-Extension.InitError") {
		t.Errorf("accepted error report + Runtime.Unknown not flagged: %v", got)
	}
	if got := sigsOf(report(403, "Extension.InitError")); !hasPrefix(got, "C15/init-error-type/") {
		t.Errorf("refused error report named as the fault not flagged: %v", got)
	}
}

func TestOracleSelfLatchModel(t *testing.T) {
	op := func(client int, in pcIn, out string, call, ret int64) porcupine.Operation {
		return porcupine.Operation{ClientId: client, Input: in, Output: out, Call: call, Return: ret}
	}
	// legal: two arrivals, then a waiter that saw the latch open; a third arrival is refused
	legal := []porcupine.Operation{
		op(0, pcIn{"walk", 0}, "nil", 1, 2),
		op(1, pcIn{"walk", 0}, "nil", 3, 4),
		op(2, pcIn{"await", 0}, "nil", 1, 5),
		op(0, pcIn{"walk", 0}, "ErrGateIntegrity", 6, 7),
	}
	if r, _ := porcupine.CheckOperationsVerbose(c11Model, legal, 5*time.Second); r != porcupine.Ok {
		t.Errorf("legal latch history judged %v", r)
	}
	// illegal: the waiter returned "open" although only one of two arrivals ever happened
	early := []porcupine.Operation{
		op(0, pcIn{"walk", 0}, "nil", 1, 2),
		op(2, pcIn{"await", 0}, "nil", 1, 5),
	}
	if r, _ := porcupine.CheckOperationsVerbose(c11Model, early, 5*time.Second); r != porcupine.Illegal {
		t.Errorf("waiter released early judged %v", r)
	}
	// illegal: three arrivals accepted on a count of two
	over := []porcupine.Operation{
		op(0, pcIn{"walk", 0}, "nil", 1, 2),
		op(1, pcIn{"walk", 0}, "nil", 3, 4),
		op(2, pcIn{"walk", 0}, "nil", 5, 6),
	}
	if r, _ := porcupine.CheckOperationsVerbose(c11Model, over, 5*time.Second); r != porcupine.Illegal {
		t.Errorf("excess arrival accepted judged %v", r)
	}
	// illegal: a waiter that returned nil after the cancellation had completed with an error
	cancelled := []porcupine.Operation{
		op(0, pcIn{"cancel", 1}, "nil", 1, 2),
		op(2, pcIn{"await", 0}, "nil", 3, 4),
	}
	if r, _ := porcupine.CheckOperationsVerbose(c11Model, cancelled, 5*time.Second); r != porcupine.Illegal {
		t.Errorf("waiter ignoring a cancellation judged %v", r)
	}
}

func TestOracleSelfDirectInvokeSpec(t *testing.T) {
	// the reference parser of C17 is a function of the current request only
	a := specParse(diReq{Mode: "Streaming", Rate: "32768", Burst: "32768"})
	b := specParse(diReq{})
	if !a.Stream || a.Rate != 32768 || a.Burst != 32768 {
		t.Errorf("explicit streaming request parsed as %+v", a)
	}
	if b.Stream || b.Rate == 32768 || b.Burst == 32768 {
		t.Errorf("request without optional headers does not get the defaults: %+v", b)
	}
	if e := specParse(diReq{Mode: "bogus"}); e.Err == "" {
		t.Errorf("invalid mode accepted by the reference parser")
	}
}
