package main

import (
	"errors"
	"fmt"
	"strings"
	"sync"
	"time"

	"go.amzn.com/lambda/interop"
	"go.amzn.com/lambda/metering"
	"go.amzn.com/verifharness/vh"
)

// C09 — shutdown choreography: TERM before KILL, one SHUTDOWN event, all reaped.

func init() { register("C09", genC09) }

type c09Desc struct {
	Rt      string   `json:"runtime"`    // exitsOnTerm | ignoresTerm | alreadyExited | neverStarted | launchFail | stuck (ignores TERM and the SHUTDOWN event, dies on KILL, but its termination is never reported)
	Exts    []string `json:"extensions"` // subExits | subIgnores | subNotPolling | subLatePoll | unsub | alreadyExited | launchFail | neverRegisters
	Trigger string   `json:"trigger"`    // timeout | failure | explicit | shutdown
	Allowed int64    `json:"allowed_ms"`
	Reason  string   `json:"reset_reason,omitempty"` // explicit trigger: the reason the caller gives ("failure" / "timeout" as the standalone client does after a failed invocation)
}

func (d c09Desc) id() string {
	id := fmt.Sprintf("C09/%s/[%s]/%s/%d", d.Rt, strings.Join(d.Exts, ","), d.Trigger, d.Allowed)
	if d.Reason != "" {
		id += "/reason-" + d.Reason
	}
	return id
}

func genC09(tier string, seed int64) []Case {
	var cases []Case
	seen := map[string]bool{}
	add := func(d c09Desc) {
		if seen[d.id()] {
			return
		}
		seen[d.id()] = true
		cases = append(cases, Case{ID: d.id(), Class: d.Trigger + "/" + d.Rt, Desc: d, Timeout: 60 * time.Second, Run: func(c *Ctx) { runC09(c, d) }})
	}
	extSets := func(kinds []string, maxN int) [][]string {
		res := [][]string{{}}
		for _, a := range kinds {
			res = append(res, []string{a})
		}
		if maxN >= 2 {
			for _, a := range kinds {
				for _, b := range kinds {
					res = append(res, []string{a, b})
				}
			}
		}
		return res
	}
	idleKinds := []string{"subExits", "subIgnores", "unsub", "alreadyExited"}
	full := tier == "thorough"
	pick := func(i int) bool { return full || i%3 == 0 }
	n := 0
	// triggers at idle
	for _, trg := range []struct {
		t string
		a int64
	}{{"explicit", 800}, {"explicit", 2000}, {"shutdown", 1200}} {
		for _, rt := range []string{"exitsOnTerm", "ignoresTerm", "alreadyExited"} {
			for _, es := range extSets(idleKinds, 2) {
				n++
				if len(es) < 2 || pick(n) {
					add(c09Desc{Rt: rt, Exts: es, Trigger: trg.t, Allowed: trg.a})
				}
			}
		}
	}
	// timeout reset: the runtime withholds its response
	for _, rt := range []string{"exitsOnTerm", "ignoresTerm"} {
		for _, es := range extSets([]string{"subExits", "subIgnores", "unsub", "subNotPolling", "subLatePoll"}, 2) {
			n++
			if len(es) < 2 || pick(n) {
				add(c09Desc{Rt: rt, Exts: es, Trigger: "timeout", Allowed: 2000})
			}
		}
	}
	// timeout during init: an extension never registers, the runtime is never started
	for _, es := range [][]string{{"neverRegisters"}, {"neverRegisters", "subExits"}, {"subIgnores", "neverRegisters"}, {"unsub", "neverRegisters"}} {
		add(c09Desc{Rt: "neverStarted", Exts: es, Trigger: "timeout", Allowed: 2000})
		add(c09Desc{Rt: "neverStarted", Exts: es, Trigger: "explicit", Allowed: 500})
	}
	// processes whose termination is never reported (the supervisor's Kill gives up): the operation returns after
	// the fixed 2 s grace - with one such process, and with several
	add(c09Desc{Rt: "stuck", Exts: []string{}, Trigger: "explicit", Allowed: 400})
	add(c09Desc{Rt: "stuck", Exts: []string{"stuck"}, Trigger: "explicit", Allowed: 400})
	add(c09Desc{Rt: "exitsOnTerm", Exts: []string{"stuck", "stuck"}, Trigger: "shutdown", Allowed: 400})
	add(c09Desc{Rt: "stuck", Exts: []string{"stuck", "subExits"}, Trigger: "timeout", Allowed: 2000})
	// the runtime cannot be launched: nothing may be signalled that was never started, nothing waited for
	for _, es := range [][]string{{}, {"subExits"}, {"subIgnores"}, {"unsub"}, {"subExits", "unsub"}} {
		add(c09Desc{Rt: "launchFail", Exts: es, Trigger: "failure", Allowed: 2000})
		add(c09Desc{Rt: "launchFail", Exts: es, Trigger: "explicit", Allowed: 800})
		add(c09Desc{Rt: "launchFail", Exts: es, Trigger: "shutdown", Allowed: 1200})
	}
	// failure reset: runtime or an extension crashes during an invocation, or fails to launch
	for _, es := range extSets([]string{"subExits", "subIgnores", "unsub"}, 2) {
		n++
		if len(es) < 2 || pick(n) {
			add(c09Desc{Rt: "alreadyExited", Exts: es, Trigger: "failure", Allowed: 2000})
		}
	}
	for _, rt := range []string{"exitsOnTerm", "ignoresTerm"} {
		for _, other := range []string{"", "subExits", "subIgnores", "unsub"} {
			es := []string{"alreadyExited"}
			if other != "" {
				es = append(es, other)
			}
			add(c09Desc{Rt: rt, Exts: es, Trigger: "failure", Allowed: 2000})
			es2 := []string{"launchFail"}
			if other != "" {
				es2 = []string{other, "launchFail"}
			}
			add(c09Desc{Rt: rt, Exts: es2, Trigger: "failure", Allowed: 2000})
		}
	}
	// the reason given by the caller is the reason the extensions are told - also after a recorded crash
	for _, reason := range []string{"failure", "timeout"} {
		for _, rt := range []string{"alreadyExited", "exitsOnTerm"} {
			for _, es := range [][]string{{"subExits"}, {"subIgnores", "unsub"}, {"alreadyExited", "subExits"}} {
				add(c09Desc{Rt: rt, Exts: es, Trigger: "explicit", Allowed: 600, Reason: reason})
			}
		}
	}
	// an unsubscribed extension whose kill takes a while: nothing may be handed to its parked next meanwhile
	for _, trg := range []struct {
		t string
		a int64
	}{{"explicit", 600}, {"shutdown", 600}, {"timeout", 2000}, {"failure", 2000}} {
		for _, es := range [][]string{{"unsubSlowKill"}, {"subExits", "unsubSlowKill"}, {"unsubSlowKill", "subIgnores"}} {
			rt := "exitsOnTerm"
			if trg.t == "failure" {
				rt = "alreadyExited"
			}
			add(c09Desc{Rt: rt, Exts: es, Trigger: trg.t, Allowed: trg.a})
		}
	}
	// the handler serving an unsubscribed extension's next loses the CPU between the release for the INVOKE event and
	// the rendering, until the teardown (which installs the shutdown event) is under way
	add(c09Desc{Rt: "alreadyExited", Exts: []string{"unsubHeldRender"}, Trigger: "failure", Allowed: 2000})
	add(c09Desc{Rt: "exitsOnTerm", Exts: []string{"unsubHeldRender"}, Trigger: "timeout", Allowed: 2000})
	return cases
}

func runC09(c *Ctx, d c09Desc) {
	extNames := []string{}
	for i := range d.Exts {
		extNames = append(extNames, fmt.Sprintf("ext%d", i))
	}
	timeout := int64(8000)
	if d.Trigger == "timeout" {
		timeout = 300
	}
	w, err := NewWorld(vh.Config{TimeoutMs: timeout, Extensions: extNames})
	if err != nil {
		c.Inconclusive("harness: " + err.Error())
		return
	}
	defer w.Close()
	var mu sync.Mutex
	shutdownEvents := map[string][]extEvent{} // per extension name: SHUTDOWN events received
	crashNow := make(chan struct{})           // closed to make the "alreadyExited" parties exit
	var crashOnce sync.Once
	withhold := d.Trigger == "timeout" && d.Rt != "neverStarted"

	w.RtPlan = func(gen int, p *vh.Proc) vh.ExecPlan {
		if gen != 1 {
			return vh.ExecPlan{Behave: w.RtLoop(RtOpts{})}
		}
		if d.Rt == "launchFail" {
			return vh.ExecPlan{Fail: errors.New("fork/exec /var/runtime/bootstrap: exec format error")}
		}
		o := RtOpts{IgnoreTerm: d.Rt == "ignoresTerm" || d.Rt == "stuck"}
		o.Handle = func(p *vh.Proc, pt *vh.Party, n int, ev *vh.Resp) *vh.Exit {
			if d.Rt == "alreadyExited" && d.Trigger == "failure" {
				return &vh.Exit{Code: 1}
			}
			if withhold {
				select {
				case <-p.Ctx.Done():
				}
				return nil
			}
			// "subNotPolling"/ext crash scenarios: answer normally
			pt.Respond(ev.ReqID(), EchoBody(ev.Body), nil)
			return nil
		}
		if d.Rt == "alreadyExited" && d.Trigger != "failure" {
			// exit at idle when told to
			o.BeforeFirstNext = func(p *vh.Proc, pt *vh.Party) *vh.Exit {
				go func() {
					select {
					case <-crashNow:
						p.RequestExit(vh.Exit{Code: 1})
					case <-p.Ctx.Done():
					}
				}()
				return nil
			}
		}
		return vh.ExecPlan{Behave: w.RtLoop(o), MuteExit: d.Rt == "stuck"}
	}
	w.ExtPlan = func(base string, gen int, p *vh.Proc) vh.ExecPlan {
		if gen != 1 {
			return vh.ExecPlan{Behave: w.ExtLoop(ExtOpts{Events: []string{"INVOKE", "SHUTDOWN"}})}
		}
		var k int
		fmt.Sscanf(base, "ext%d", &k)
		kind := d.Exts[k]
		o := ExtOpts{Events: []string{"INVOKE", "SHUTDOWN"}, IgnoreTerm: true}
		record := func(p *vh.Proc, ev *vh.Resp) {
			e := parseExtEvent(ev.Body)
			if e.EventType == "SHUTDOWN" {
				mu.Lock()
				shutdownEvents[base] = append(shutdownEvents[base], e)
				mu.Unlock()
			}
		}
		switch kind {
		case "launchFail":
			return vh.ExecPlan{Fail: errors.New("fork/exec: exec format error")}
		case "neverRegisters":
			return vh.ExecPlan{Behave: vh.Puppet{ExitOnTerm: false}.Run}
		case "subExits":
			if k%2 == 1 {
				o.Events = []string{"SHUTDOWN"}
			}
			o.OnEvent = func(p *vh.Proc, pt *vh.Party, n int, ev *vh.Resp) *vh.Exit { record(p, ev); return nil }
		case "stuck":
			o.IgnoreShutdown = true
			o.OnEvent = func(p *vh.Proc, pt *vh.Party, n int, ev *vh.Resp) *vh.Exit { record(p, ev); return nil }
			return vh.ExecPlan{Behave: w.ExtLoop(o), MuteExit: true}
		case "subIgnores":
			o.IgnoreShutdown = true
			o.OnEvent = func(p *vh.Proc, pt *vh.Party, n int, ev *vh.Resp) *vh.Exit {
				record(p, ev)
				if parseExtEvent(ev.Body).EventType == "SHUTDOWN" {
					// keep polling like a misbehaving extension: it must not receive a second event
					go func() {
						r := pt.ExtNext()
						if r.Status == 200 {
							record(p, r)
						}
					}()
				}
				return nil
			}
		case "subNotPolling":
			o.OnEvent = func(p *vh.Proc, pt *vh.Party, n int, ev *vh.Resp) *vh.Exit {
				record(p, ev)
				return Stall(p) // got the INVOKE event, never asks for next again
			}
		case "subLatePoll":
			// busy with the INVOKE event when the reset starts; asks for next only once the
			// teardown is under way (the runtime is gone): must still get its one SHUTDOWN event
			o.OnEvent = func(p *vh.Proc, pt *vh.Party, n int, ev *vh.Resp) *vh.Exit {
				record(p, ev)
				if parseExtEvent(ev.Body).EventType != "INVOKE" {
					return nil
				}
				for {
					gone := false
					for _, e := range w.E.Log.Snapshot() {
						if e.Src == "sup" && e.Kind == "exit" && strings.HasPrefix(e.Op, "runtime-") {
							gone = true
						}
					}
					if gone {
						break
					}
					if !p.Sleep(300 * time.Microsecond) {
						return nil
					}
				}
				p.Sleep(3 * time.Millisecond)
				return nil
			}
		case "unsub":
			o.Events = []string{"INVOKE"}
			o.OnEvent = func(p *vh.Proc, pt *vh.Party, n int, ev *vh.Resp) *vh.Exit { record(p, ev); return nil }
		case "unsubSlowKill":
			// like unsub, but the kill takes a while to take effect: whatever the platform hands to the
			// parked next of this extension in the meantime is received and recorded
			o.Events = []string{"INVOKE"}
			o.OnEvent = func(p *vh.Proc, pt *vh.Party, n int, ev *vh.Resp) *vh.Exit { record(p, ev); return Stall(p) }
			return vh.ExecPlan{Behave: w.ExtLoop(o), KillDelay: 25 * time.Millisecond}
		case "unsubHeldRender":
			// like unsubSlowKill; additionally the handler that serves this extension's next is held between its
			// release (for the INVOKE event) and the rendering of the event until the teardown is under way
			o.Events = []string{"INVOKE"}
			o.OnEvent = func(p *vh.Proc, pt *vh.Party, n int, ev *vh.Resp) *vh.Exit { record(p, ev); return Stall(p) }
			return vh.ExecPlan{Behave: w.ExtLoop(o), KillDelay: 60 * time.Millisecond}
		case "alreadyExited":
			o.OnEvent = func(p *vh.Proc, pt *vh.Party, n int, ev *vh.Resp) *vh.Exit {
				record(p, ev)
				if d.Trigger == "failure" && parseExtEvent(ev.Body).EventType == "INVOKE" {
					return &vh.Exit{Code: 2}
				}
				return nil
			}
			if d.Trigger != "failure" {
				o.AfterRegister = func(p *vh.Proc, pt *vh.Party, reg *vh.Resp) *vh.Exit {
					go func() {
						select {
						case <-crashNow:
							p.RequestExit(vh.Exit{Code: 2})
						case <-p.Ctx.Done():
						}
					}()
					return nil
				}
			}
		}
		return vh.ExecPlan{Behave: w.ExtLoop(o)}
	}

	w.E.Init()
	initWillComplete := d.Rt != "neverStarted" && d.Rt != "launchFail"
	for _, k := range d.Exts {
		if k == "launchFail" || k == "neverRegisters" {
			initWillComplete = false
		}
	}
	waitInitReport := func() bool {
		dl := time.Now().Add(8 * time.Second)
		for time.Now().Before(dl) {
			for _, e := range w.E.Log.Snapshot() {
				if e.Src == "events" && e.Op == "InitReport" {
					return true
				}
			}
			time.Sleep(300 * time.Microsecond)
		}
		return false
	}
	if initWillComplete {
		if !waitInitReport() {
			c.Inconclusive("init did not complete")
			return
		}
		time.Sleep(2 * time.Millisecond)
	} else {
		time.Sleep(5 * time.Millisecond)
	}
	// every extension that is expected to be polling must be parked in next before the trigger
	for i, k := range d.Exts {
		if k == "subExits" || k == "subIgnores" || k == "unsub" || k == "unsubSlowKill" || k == "unsubHeldRender" || (k == "alreadyExited" && d.Trigger != "failure") || (k == "subNotPolling") || (k == "subLatePoll") || (k == "stuck") {
			name := fmt.Sprintf("ext%d", i)
			dl := time.Now().Add(5 * time.Second)
			for time.Now().Before(dl) && w.E.ExtState(name) != "Ready" {
				time.Sleep(200 * time.Microsecond)
			}
		}
	}
	time.Sleep(time.Millisecond)

	// ---- apply the trigger; tCall = a time not later than the moment the reset was requested ----
	var tCall time.Time
	var retSeq int64
	reason := ""
	var inv *vh.Invocation
	mark := func() int64 { return w.E.Log.Add(vh.Event{Src: "drv", Kind: "note", Op: "trigger"}) }
	trigSeq := int64(0)
	switch d.Trigger {
	case "explicit":
		if d.Rt == "alreadyExited" || contains(d.Exts, "alreadyExited") {
			crashOnce.Do(func() { close(crashNow) })
			time.Sleep(5 * time.Millisecond)
		}
		reason = "explicit-test"
		if d.Reason != "" {
			reason = d.Reason
		}
		trigSeq = mark()
		tCall = time.Now()
		w.E.Srv.Reset(reason, d.Allowed)
		retSeq = w.E.Log.Add(vh.Event{Src: "drv", Kind: "ret", Op: "reset"})
	case "shutdown":
		if d.Rt == "alreadyExited" || contains(d.Exts, "alreadyExited") {
			crashOnce.Do(func() { close(crashNow) })
			time.Sleep(5 * time.Millisecond)
		}
		reason = "spindown"
		trigSeq = mark()
		tCall = time.Now()
		w.E.Srv.Shutdown(&interop.Shutdown{DeadlineNs: metering.Monotime() + d.Allowed*1000*1000})
		retSeq = w.E.Log.Add(vh.Event{Src: "drv", Kind: "ret", Op: "shutdown"})
	case "timeout", "failure":
		reason = map[string]string{"timeout": "Timeout", "failure": "ReleaseFail"}[d.Trigger]
		heldIdx := -1
		for i, k := range d.Exts {
			if k == "unsubHeldRender" {
				heldIdx = i
			}
		}
		if heldIdx >= 0 {
			w.Hk.Hold("agentNext.released", 0)
			pname := fmt.Sprintf("extension-ext%d-1", heldIdx)
			go func() {
				// resume the held handler once the teardown has asked for this extension to be killed
				for dl := time.Now().Add(15 * time.Second); time.Now().Before(dl); time.Sleep(300 * time.Microsecond) {
					for _, e := range w.E.Log.Snapshot() {
						if e.Src == "sup" && e.Kind == "kill" && e.Op == pname {
							time.Sleep(2 * time.Millisecond)
							w.Hk.Release("agentNext.released")
							return
						}
					}
				}
				w.Hk.Release("agentNext.released")
			}()
		}
		inv = w.E.InvokeAsync([]byte("trigger-event"), vh.InvokeOpts{})
		if !inv.Wait(time.Duration(timeout)*time.Millisecond + 2*time.Second + 10*time.Second) {
			c.Check(false, "returns", "C09/hang/"+d.Trigger, "the invocation that triggers the reset never returned", nil)
			c.SetSample(sampleLog(w, 200))
			return
		}
		retSeq = inv.RetSeq
		// the reset was requested at the corresponding pause point (logged by the hook controller)
		hookName := map[string]string{"timeout": "invoke.timeoutFired", "failure": "invoke.releaseFailed"}[d.Trigger]
		for _, e := range w.E.Log.Snapshot() {
			if e.Src == "hook" && e.Kind == "hit" && e.Op == hookName && trigSeq == 0 {
				trigSeq = e.Seq
				tCall = inv.CallT.Add(time.Duration(e.T)*time.Microsecond - w.E.Log.Now() + time.Since(inv.CallT))
			}
		}
		if trigSeq == 0 && (contains(d.Exts, "launchFail") || d.Rt == "launchFail") {
			// a launch failure ends the invocation through the init-failure shutdown; everything from the invoke on is evaluated
			trigSeq = inv.CallSeq
		}
		if trigSeq == 0 {
			c.Inconclusive("reset trigger point not observed")
			return
		}
	}
	evs := w.E.Log.Snapshot()
	tOf := func(e vh.Event) time.Duration { return time.Duration(e.T) * time.Microsecond }
	var tTrig time.Duration
	for _, e := range evs {
		if e.Seq == trigSeq {
			tTrig = tOf(e)
		}
	}
	_ = tCall
	allowed := time.Duration(d.Allowed) * time.Millisecond
	D := tTrig + allowed // log-clock time of the (earliest possible) absolute deadline

	// the choreography is the LAST shutdown sequence after the trigger; for the launch-failure path an
	// explicit Shutdown (2 s allowance) precedes the reset: evaluate from the trigger on
	after := func(e vh.Event) bool { return e.Seq > trigSeq && e.Seq < retSeq }
	if d.Trigger == "failure" && (contains(d.Exts, "launchFail") || d.Rt == "launchFail") {
		// init failed: the front door SHUTS the environment DOWN (reason "spindown", fixed 2 s allowance)
		// before the reset finds nothing left; take everything from the invoke on
		after = func(e vh.Event) bool { return e.Seq > inv.CallSeq && e.Seq < retSeq }
		D = 0
		reason = "spindown"
	}
	procs := procsOfGen(w, 1)
	var rtProc *vh.Proc
	registered := 0
	for _, p := range procs {
		if p.Role == "runtime" {
			rtProc = p
		}
	}
	for i, k := range d.Exts {
		_ = i
		if k != "launchFail" && k != "neverRegisters" {
			registered++
		}
		if k == "launchFail" {
			registered++ // the agent object exists (LaunchError state) and counts
		}
	}
	sup := vh.Filter(evs, func(e vh.Event) bool { return e.Src == "sup" && after(e) })
	find := func(kind, name string) []vh.Event {
		return vh.Filter(sup, func(e vh.Event) bool { return e.Kind == kind && e.Op == name })
	}
	cls := d.Trigger + "/" + d.Rt

	// ---- runtime ----
	if rtProc == nil {
		c.Check(d.Rt == "neverStarted" || d.Rt == "launchFail" || contains(d.Exts, "launchFail"), "runtime_not_started_consistent", "C09/harness-runtime-missing", "runtime process missing", nil)
		c.Check(len(vh.Filter(sup, func(e vh.Event) bool {
			return strings.HasPrefix(e.Op, "runtime-") && (e.Kind == "term" || e.Kind == "kill")
		})) == 0,
			"no_signal_to_unstarted_runtime", "C09/signal-to-unstarted-runtime", "a runtime that was never started was terminated or killed", nil)
	} else {
		terms, kills := find("term", rtProc.Name), find("kill", rtProc.Name)
		exitedBefore := false
		var exitT time.Duration
		for _, e := range evs {
			if e.Src == "sup" && e.Kind == "exit" && e.Op == rtProc.Name {
				exitT = tOf(e)
				if e.Seq < trigSeq {
					exitedBefore = true
				}
			}
		}
		if registered == 0 {
			// (a) no extension registered: killed at once, no TERM
			c.Check(len(terms) == 0, "no_term_without_extensions", "C09/term-without-extensions/"+cls, "runtime was sent SIGTERM although no extension is registered", nil)
			if exitedBefore {
				c.Clause("kill_without_extensions")
			} else {
				c.Check(len(kills) == 1, "kill_without_extensions", fmt.Sprintf("C09/kill-count-without-extensions/%d", len(kills)), fmt.Sprintf("runtime killed %d times with no extension registered", len(kills)), nil)
			}
		} else {
			// (b) TERM first; KILL only if still alive after 30% of the allowed time
			if len(kills) > 0 {
				c.Check(len(terms) >= 1 && terms[0].Seq < kills[0].Seq, "term_before_kill", "C09/kill-before-term/"+cls, "runtime was killed without a preceding SIGTERM", nil)
			}
			if !exitedBefore {
				c.Check(len(terms) == 1, "term_sent", fmt.Sprintf("C09/term-count/%d/%s", len(terms), cls), fmt.Sprintf("runtime received %d SIGTERM requests", len(terms)), nil)
			}
			needKill := (d.Rt == "ignoresTerm" || d.Rt == "stuck") && !exitedBefore
			if needKill {
				if c.Check(len(kills) == 1, "kill_if_alive", fmt.Sprintf("C09/runtime-kill-count/%d/%s", len(kills), cls), "a runtime ignoring SIGTERM must be killed exactly once", nil) && D > 0 {
					lower := tTrig + time.Duration(0.3*float64(allowed))
					c.Check(tOf(kills[0]) >= lower-time.Millisecond, "kill_not_before_30_percent", "C09/runtime-killed-early/"+cls,
						fmt.Sprintf("runtime killed %.1f ms after the reset request, before 30%% of the allowed %d ms", float64(tOf(kills[0])-tTrig)/1e6, d.Allowed), nil)
				}
			} else {
				// it exited by itself (on TERM or earlier): a KILL is only acceptable if it was still alive when issued... it must not be issued at all
				alive := vh.Filter(kills, func(e vh.Event) bool { return e.Extra["alive"] == "true" })
				c.Check(len(alive) == 0, "no_kill_if_exited", "C09/runtime-killed-although-exited/"+cls, "runtime that exits on SIGTERM was killed", nil)
			}
		}
		_ = exitT
	}

	// ---- extensions ----
	for i, kind := range d.Exts {
		name := fmt.Sprintf("ext%d", i)
		pname := fmt.Sprintf("extension-%s-1", name)
		mu.Lock()
		got := append([]extEvent{}, shutdownEvents[name]...)
		mu.Unlock()
		kills := find("kill", pname)
		aliveKills := vh.Filter(kills, func(e vh.Event) bool { return e.Extra["alive"] == "true" })
		ec := "C09/ext/" + kind + "/" + d.Trigger
		switch kind {
		case "subExits", "subIgnores", "subLatePoll", "stuck":
			if c.Check(len(got) == 1, "one_shutdown_event", fmt.Sprintf("%s/events-%d", ec, len(got)), fmt.Sprintf("SHUTDOWN-subscribed polling extension received %d SHUTDOWN events", len(got)), nil) {
				okReason := got[0].ShutdownReason == reason
				if d.Rt == "neverStarted" && d.Trigger == "timeout" && got[0].ShutdownReason == "spindown" {
					// the timeout reset and the shutdown of the failed init race for the teardown; either may perform it
					okReason = true
				}
				c.Check(okReason, "shutdown_reason", ec+"/reason", fmt.Sprintf("shutdownReason %q, expected %q", got[0].ShutdownReason, reason), nil)
				if D > 0 {
					wantMs := time.Now().Add(-w.E.Log.Now()+D).UnixNano() / 1e6
					diff := got[0].DeadlineMs - wantMs
					// the true deadline is not earlier than ours and at most a few ms later (time between request and deadline computation)
					c.Check(diff >= -2 && diff <= 50, "shutdown_deadline", ec+"/deadline", fmt.Sprintf("deadlineMs differs from request time + allowed by %d ms", diff), nil)
				}
			}
			if kind == "subExits" || kind == "subLatePoll" {
				c.Check(len(aliveKills) == 0, "no_kill_if_exited", ec+"/killed-although-exited", "extension that exits on the SHUTDOWN event was killed", nil)
			} else {
				if c.Check(len(aliveKills) == 1, "kill_at_deadline", fmt.Sprintf("%s/kill-count-%d", ec, len(aliveKills)), "extension ignoring the SHUTDOWN event must be killed exactly once", nil) && D > 0 {
					c.Check(tOf(aliveKills[0]) >= D-time.Millisecond, "kill_not_before_deadline", ec+"/killed-early",
						fmt.Sprintf("subscribed extension killed %.1f ms before the deadline", float64(D-tOf(aliveKills[0]))/1e6), nil)
				}
			}
		case "subNotPolling":
			c.Check(len(got) == 0, "no_event_if_not_polling", ec+"/event-although-not-polling", "extension that is not polling received a SHUTDOWN event", nil)
			if c.Check(len(aliveKills) == 1, "kill_at_deadline", fmt.Sprintf("%s/kill-count-%d", ec, len(aliveKills)), "subscribed, non-polling extension must be killed exactly once", nil) && D > 0 {
				c.Check(tOf(aliveKills[0]) >= D-time.Millisecond, "kill_not_before_deadline", ec+"/killed-early", "subscribed extension killed before the deadline", nil)
			}
		case "unsub", "unsubSlowKill", "unsubHeldRender":
			c.Check(len(got) == 0, "no_event_if_unsubscribed", ec+"/event-although-unsubscribed", "extension not subscribed to SHUTDOWN received a SHUTDOWN event", nil)
			c.Check(len(aliveKills) == 1, "unsubscribed_killed", fmt.Sprintf("%s/kill-count-%d", ec, len(aliveKills)), "unsubscribed extension must be killed exactly once", nil)
		case "alreadyExited", "launchFail":
			c.Check(len(got) == 0, "no_event_if_gone", ec+"/event-to-dead", "an extension that already exited / failed to launch received a SHUTDOWN event", nil)
			c.Check(len(aliveKills) == 0, "no_kill_if_gone", ec+"/kill-of-dead", "a dead extension was killed while alive?", nil)
		case "neverRegisters":
			// launched, never registered: no subscription, killed without event
			c.Check(len(got) == 0, "no_event_if_unsubscribed", ec+"/event", "unregistered extension received an event", nil)
			c.Check(len(aliveKills) == 1, "unsubscribed_killed", fmt.Sprintf("%s/kill-count-%d", ec, len(aliveKills)), "launched but unregistered extension must be killed", nil)
		}
	}

	// ---- (f) returns only after every process it started was reaped ----
	anyStuck := false
	for _, p := range procs {
		if p.MuteExit {
			// its termination is never reported: the operation gives up on it after the fixed grace
			anyStuck = true
			continue
		}
		reaped := false
		for _, e := range evs {
			if e.Src == "sup" && e.Kind == "exit" && e.Op == p.Name && e.Seq < retSeq {
				reaped = true
			}
		}
		c.Check(reaped, "reaped_before_return", "C09/not-reaped/"+p.Role+"/"+d.Trigger, fmt.Sprintf("%s was not reaped when the operation returned", p.Name), nil)
	}
	// ---- (g) returns within deadline + allowance (one-sided, generous) ----
	if D > 0 {
		var tRet time.Duration
		for _, e := range evs {
			if e.Seq == retSeq {
				tRet = tOf(e)
			}
		}
		if anyStuck {
			c.Check(tRet >= D, "grace_not_cut_short", "C09/early-return-with-stuck-process/"+d.Trigger, "the operation returned before the deadline although a process had not been reaped", nil)
			c.Clause("returns_after_grace_with_stuck_processes")
		}
		c.Check(tRet <= D+2*time.Second+2500*time.Millisecond, "returns_in_time", "C09/late-return/"+d.Trigger, fmt.Sprintf("operation returned %.0f ms after the deadline", float64(tRet-D)/1e6), nil)
	}
	if d.Reason == "" {
		// (a reset that claims a failed invocation while none is in flight produces a runtime-done record
		// without a start: a caller-made history outside what the lifecycle oracle describes)
		lifecycleOracle(c, w)
	}
	c.SetHooks(w.Hk.Arrived())
	c.SetTrace(d.id()+NormTrace(evs, func(e vh.Event) bool { return e.Src == "sup" && (e.Kind == "term" || e.Kind == "kill") }), true)
	if c.WantSample || c.Violated() {
		c.SetSample(sampleLog(w, 200))
	}
}

func contains(ss []string, s string) bool {
	for _, x := range ss {
		if x == s {
			return true
		}
	}
	return false
}
