package main

import (
	"bytes"
	"encoding/json"
	"fmt"
	"math/rand"
	"net/http"
	"regexp"
	"strings"
	"time"
	"unicode/utf8"

	"go.amzn.com/lambda/appctx"
	"go.amzn.com/lambda/fatalerror"
	"go.amzn.com/lambda/rapi/model"
	"go.amzn.com/verifharness/vh"
)

// C20 — client-supplied error metadata is sanitised and bounded.

func init() { register("C20", genC20) }

type c20Desc struct {
	Kind string `json:"kind"` // errtype | cause | identity | stack
	N    int    `json:"n"`
	Salt string `json:"salt"`
}

func genC20(tier string, seed int64) []Case {
	var cases []Case
	add := func(d c20Desc) {
		id := fmt.Sprintf("C20/%s/%s", d.Kind, d.Salt)
		cases = append(cases, Case{ID: id, Class: d.Kind, Desc: d, Timeout: 300 * time.Second, Run: func(c *Ctx) { runC20(c, d) }})
	}
	nb, per := 8, 2500
	causes, idn := 300, 400
	if tier == "thorough" {
		nb, per, causes, idn = 40, 25000, 1500, 3000
	}
	add(c20Desc{Kind: "errtype", N: 0, Salt: "enumerated"})
	// the same sanitisation where an error type enters through the restore hook (both endpoints a runtime may use),
	// on the real stack: scenarios borrowed from C18, the clause evaluated here
	for _, order := range []string{"P,R,E", "P,R,I"} {
		for _, et := range []string{"Runtime.HookFailed", "Function.Oops", "bogus type", "xRuntime.Fooy", "", "Runtime.Hook, secret=hunter2", "Function.Err.Sub", "Runtime.Ok\",\"injected\":\"yes", "Sandbox.Timeout", "Runtime.lowercase<script>"} {
			d18 := c18Desc{Order: order, HookMs: 300, EType: et, As: "C20"}
			cases = append(cases, Case{ID: fmt.Sprintf("C20/restore-error-type/%s/%q", order, et), Class: "restore-errtype", Desc: d18, Timeout: 60 * time.Second, Run: func(c *Ctx) { runC18(c, d18) }})
		}
	}
	for i := 0; i < nb; i++ {
		add(c20Desc{Kind: "errtype", N: per, Salt: fmt.Sprintf("rand%d-%d", seed, i)})
	}
	add(c20Desc{Kind: "cause", N: 0, Salt: "enumerated"})
	for i := 0; i < nb; i++ {
		add(c20Desc{Kind: "cause", N: causes, Salt: fmt.Sprintf("rand%d-%d", seed, i)})
	}
	for i := 0; i < nb; i++ {
		add(c20Desc{Kind: "identity", N: idn, Salt: fmt.Sprintf("rand%d-%d", seed, i)})
	}
	for i := 0; i < 4; i++ {
		add(c20Desc{Kind: "stack", N: 12, Salt: fmt.Sprintf("full%d-%d", seed, i)})
	}
	return cases
}

func runC20(c *Ctx, d c20Desc) {
	switch d.Kind {
	case "errtype":
		runC20ErrType(c, d)
	case "cause":
		runC20Cause(c, d)
	case "identity":
		runC20Identity(c, d)
	case "stack":
		runC20Stack(c, d)
	}
}

// ---- error type ----

var c20Spec = regexp.MustCompile(`^(Runtime|Function)\.[A-Z][a-zA-Z]*$`)
var c20OneLetter = regexp.MustCompile(`^(Runtime|Function)\.[A-Z]$`)

// specErrType returns the set of acceptable outcomes for input s.
func specErrType(s string) []string {
	fallback := "Runtime.Unknown"
	if strings.HasPrefix(s, "Function.") {
		fallback = "Function.Unknown"
	}
	if c20Spec.MatchString(s) {
		if c20OneLetter.MatchString(s) {
			// "a capitalised word of letters": whether a single letter is a word is left open by the statement
			return []string{s, fallback}
		}
		return []string{s}
	}
	return []string{fallback}
}

func classErrType(s string) string {
	switch {
	case c20Spec.MatchString(s):
		return "exact-form"
	case strings.Contains(s, "Runtime.") || strings.Contains(s, "Function."):
		return "near-miss"
	}
	return "other"
}

func runC20ErrType(c *Ctx, d c20Desc) {
	var inputs []string
	if d.N == 0 {
		for _, p := range []string{"Runtime", "Function"} {
			for _, w := range []string{"Foo", "FooBar", "F", "Fo", "foo", "F1", "Foo1", "Foo Bar", "Foo.Bar", "", "É", "Éa", "FoÉ", "Foo\n", "Foo\t", "FOO", strings.Repeat("A", 65536), "Foo!", "Foo-", "Foo_"} {
				for _, pre := range []string{"", " ", "x", "xx", "Runtime.", "a ", "\n"} {
					for _, suf := range []string{"", " ", "!", "!! bar", ".Baz", "\n", "\x00"} {
						inputs = append(inputs, pre+p+"."+w+suf)
					}
				}
			}
		}
		for _, v := range []string{"", "Runtime", "Function", "Runtime.", "Function.", ".", "Runtime..Foo", "runtime.Foo", "FUNCTION.Foo", "Extension.Crash", "Sandbox.Failure", "Function.Unknown", "Runtime.Unknown",
			"Runtime.ExitError", "Runtime.InvalidEntrypoint", "Runtime.InvalidWorkingDir", "Runtime.InvalidTaskConfig", "Runtime.TruncatedResponse", "Runtime.InvalidResponseModeHeader", "Function.ResponseSizeTooLarge",
			"Function.Runtime.Foo", "Runtime.Function.Foo", "xxRuntime.Foo!! bar", "a Function.Bar.Baz"} {
			inputs = append(inputs, v)
		}
	} else {
		r := rng(c.Seed, d.Salt)
		alpha := []string{"Runtime", "Function", ".", ".", "A", "b", "Zz", "1", " ", "\n", "é", "_", "!", "R", "F", "unction", "untime", "Unknown", "x"}
		for i := 0; i < d.N; i++ {
			var sb strings.Builder
			switch r.Intn(4) {
			case 0: // valid form
				sb.WriteString([]string{"Runtime.", "Function."}[r.Intn(2)])
				sb.WriteByte(byte('A' + r.Intn(26)))
				for k := r.Intn(12); k > 0; k-- {
					sb.WriteByte("abcdefghijklmnopqrstuvwxyzABCDEFGHIJKLMNOPQRSTUVWXYZ"[r.Intn(52)])
				}
			case 1: // valid form with one mutation
				b := []byte([]string{"Runtime.", "Function."}[r.Intn(2)] + "Ab" + "cdefgh"[:r.Intn(6)])
				pos := r.Intn(len(b) + 1)
				mut := []byte{byte(r.Intn(256))}
				if r.Intn(2) == 0 {
					b = append(b[:pos:pos], append(mut, b[pos:]...)...)
				} else if pos < len(b) {
					b[pos] = mut[0]
				}
				sb.Write(b)
			default:
				for k := 1 + r.Intn(6); k > 0; k-- {
					sb.WriteString(alpha[r.Intn(len(alpha))])
				}
			}
			inputs = append(inputs, sb.String())
		}
	}
	classes := map[string]int{}
	for _, in := range inputs {
		got := string(fatalerror.GetValidRuntimeOrFunctionErrorType(in))
		want := specErrType(in)
		ok := false
		for _, w := range want {
			if got == w {
				ok = true
			}
		}
		cl := classErrType(in)
		classes[cl]++
		sig := "C20/errtype/" + cl
		if cl != "exact-form" && got == in {
			sig = "C20/errtype/passed-through-" + cl
		}
		if !c.Check(ok, "errtype_"+cl, sig, fmt.Sprintf("error type %q was mapped to %q, allow-list says %v", truncS(in, 80), truncS(got, 80), want), nil) {
			break
		}
	}
	for k, v := range classes {
		c.Counter("errtype_"+k, v)
	}
	c.SetTrace("errtype"+d.Salt, true)
	if len(inputs) > 3 {
		c.SetSample(map[string]interface{}{"inputs": len(inputs), "examples": []string{truncS(inputs[0], 60), truncS(inputs[len(inputs)/2], 60), truncS(inputs[len(inputs)-1], 60)}})
	}
}

func truncS(s string, n int) string {
	if len(s) > n {
		return s[:n] + fmt.Sprintf("...(%d bytes)", len(s))
	}
	return s
}

// ---- error cause ----

type c20Frame struct {
	Path  string `json:"path,omitempty"`
	Line  int    `json:"line,omitempty"`
	Label string `json:"label,omitempty"`
}
type c20Exc struct {
	Message string     `json:"message,omitempty"`
	Type    string     `json:"type,omitempty"`
	Stack   []c20Frame `json:"stack,omitempty"`
}
type c20Cause struct {
	Exceptions []c20Exc `json:"exceptions"`
	WorkingDir string   `json:"working_directory"`
	Paths      []string `json:"paths"`
	Message    string   `json:"message,omitempty"`
}

func hostileString(r *rand.Rand, n int) string {
	switch r.Intn(7) {
	case 0:
		return strings.Repeat("\x01", n)
	case 1:
		return strings.Repeat(`"`, n)
	case 2:
		return strings.Repeat(`\`, n)
	case 3:
		return strings.Repeat(" ", n/3+1)
	case 4:
		return strings.Repeat("<>&", n/3+1)
	case 5:
		return strings.Repeat("é", n/2+1)
	}
	b := make([]byte, n)
	for i := range b {
		b[i] = byte(0x20 + r.Intn(0x5f))
	}
	return string(b)
}

func checkCause(c *Ctx, input []byte, label string) bool {
	out, err := model.ValidatedErrorCauseJSON(input)
	var in c20Cause
	perr := json.Unmarshal(input, &in)
	recognised := perr == nil && (len(in.WorkingDir) > 0 || len(in.Paths) > 0 || len(in.Exceptions) > 0 || len(in.Message) > 0)
	if !recognised {
		return c.Check(err != nil || out == nil, "cause_dropped_when_unrecognised", "C20/cause/not-dropped/"+label, "an error cause that is invalid JSON or has no recognised field was passed on", truncS(string(input), 200))
	}
	if !c.Check(err == nil && out != nil, "cause_kept_when_recognised", "C20/cause/dropped/"+label, "an error cause with recognised fields was dropped", truncS(string(input), 200)) {
		return false
	}
	if !c.Check(len(out) <= model.MaxErrorCauseSizeBytes, "cause_bounded_64k", "C20/cause/too-large/"+label, fmt.Sprintf("sanitised error cause is %d bytes (> %d); input %d bytes", len(out), model.MaxErrorCauseSizeBytes, len(input)), truncS(string(input), 200)) {
		return false
	}
	var got c20Cause
	if !c.Check(json.Valid(out) && json.Unmarshal(out, &got) == nil, "cause_valid_json", "C20/cause/invalid-json/"+label, "sanitised error cause is not valid JSON", truncS(string(out), 200)) {
		return false
	}
	// fields are the originals, possibly shortened
	shortened := func(g, o string) bool {
		if g == o {
			return true
		}
		if !strings.HasSuffix(g, "...") {
			return false
		}
		// the cut may fall inside a multi-byte character, which the encoder replaces by U+FFFD
		p := strings.TrimSuffix(strings.TrimSuffix(g, "..."), "\ufffd")
		return strings.HasPrefix(o, p)
	}
	// Go's decoder replaces invalid UTF-8 on both sides identically, so values are comparable
	ok := shortened(got.Message, in.Message) && shortened(got.WorkingDir, in.WorkingDir)
	ok = ok && len(got.Paths) <= len(in.Paths) && len(got.Exceptions) <= len(in.Exceptions)
	if ok {
		for i := range got.Paths {
			if got.Paths[i] != in.Paths[i] {
				ok = false
			}
		}
		for i := range got.Exceptions {
			a, _ := json.Marshal(got.Exceptions[i])
			b, _ := json.Marshal(in.Exceptions[i])
			if !bytes.Equal(a, b) {
				ok = false
			}
		}
	}
	c.Check(ok, "cause_fields_original_or_shortened", "C20/cause/fields-altered/"+label, "sanitised error cause contains something other than (prefixes of) the original fields", truncS(string(out), 300))
	// nothing else: re-encoding the decoded struct reproduces the output
	re, _ := json.Marshal(got)
	var a, b interface{}
	json.Unmarshal(re, &a)
	json.Unmarshal(out, &b)
	ra, _ := json.Marshal(a)
	rb, _ := json.Marshal(b)
	c.Check(bytes.Equal(ra, rb), "cause_no_extra_fields", "C20/cause/extra-fields/"+label, "sanitised error cause carries fields outside the recognised set", truncS(string(out), 300))
	if len(input) > model.MaxErrorCauseSizeBytes {
		c.Clause("cause_oversized_input")
	}
	return ok
}

func runC20Cause(c *Ctx, d c20Desc) {
	n := 0
	if d.N == 0 {
		docs := []string{
			``, `{`, `null`, `[]`, `"x"`, `{}`, `{"foo":"bar"}`, `{"message":""}`, `{"message":"m"}`, `{"working_directory":"/w"}`, `{"paths":["a"]}`, `{"paths":[]}`, `{"exceptions":[]}`,
			`{"exceptions":[{"message":"e","type":"T","stack":[{"path":"p","line":1,"label":"l"}]}]}`, `{"message":1}`, `{"paths":"a"}`, `{"exceptions":{}}`, `{"MESSAGE":"case"}`,
			`{"message":"m","unknown":{"deep":[1,2,3]}}`, `{"message":"m"} trailing`, `{"message":"\ud800"}`, "{\"message\":\"\xff\xfe\"}",
		}
		for _, s := range docs {
			checkCause(c, []byte(s), "enum")
			n++
		}
		// multi-megabyte and escape-heavy fields
		for _, mk := range []func(int) string{
			func(k int) string { return strings.Repeat("a", k) },
			func(k int) string { return strings.Repeat("\x01", k) },
			func(k int) string { return strings.Repeat(`"`, k) },
			func(k int) string { return strings.Repeat(" ", k/3) },
			func(k int) string { return strings.Repeat("<", k) },
		} {
			for _, sz := range []int{1000, 30000, 40000, 70000, 100000, 600000} {
				for _, field := range []string{"message", "working_directory", "both"} {
					cause := c20Cause{}
					if field == "message" || field == "both" {
						cause.Message = mk(sz)
					}
					if field == "working_directory" || field == "both" {
						cause.WorkingDir = mk(sz)
					}
					b, _ := json.Marshal(cause)
					checkCause(c, b, "big-"+field)
					n++
				}
			}
		}
		// documents written by hand (NOT through an encoder that pre-escapes): characters that are
		// legal unescaped in the input but are escaped - and so grow - when the platform re-serialises
		for _, ch := range []string{"<", ">", "&", "\u2028", "\u2029", "\u00e9<"} {
			for _, k := range []int{9000, 10900, 10950, 21000, 40000, 60000, 65000, 65500} {
				for _, field := range []string{"message", "working_directory"} {
					doc := `{"` + field + `":"` + strings.Repeat(ch, k/len(ch)) + `"}`
					checkCause(c, []byte(doc), "raw-"+field)
					n++
				}
			}
		}
		// raw size just around the limit: the re-serialised form adds the keys that were absent
		for delta := -70; delta <= 10; delta++ {
			k := model.MaxErrorCauseSizeBytes + delta - len(`{"message":""}`)
			checkCause(c, []byte(`{"message":"`+strings.Repeat("a", k)+`"}`), "raw-boundary")
			checkCause(c, []byte(`{"paths":["`+strings.Repeat("p", k+2)+`"]}`), "raw-boundary")
			n += 2
		}
		// many exceptions / paths
		for _, k := range []int{10, 1000, 100000} {
			cause := c20Cause{Message: "m"}
			for i := 0; i < k; i++ {
				cause.Paths = append(cause.Paths, fmt.Sprintf("/var/task/%d.py", i))
				if i < k/10+1 {
					cause.Exceptions = append(cause.Exceptions, c20Exc{Message: fmt.Sprintf("exc %d \"quoted\"", i), Type: "E", Stack: []c20Frame{{Path: "p", Line: i, Label: "l"}}})
				}
			}
			b, _ := json.Marshal(cause)
			checkCause(c, b, "many")
			n++
		}
		// multi-megabyte plain message
		bb, _ := json.Marshal(c20Cause{Message: strings.Repeat("m", 3000000), WorkingDir: "/w"})
		checkCause(c, bb, "multi-megabyte")
		n++
		// one huge exception
		b, _ := json.Marshal(c20Cause{Exceptions: []c20Exc{{Message: strings.Repeat("\x02", 200000)}}})
		checkCause(c, b, "huge-exception")
		n++
	} else {
		r := rng(c.Seed, d.Salt)
		for i := 0; i < d.N; i++ {
			cause := c20Cause{}
			if r.Intn(3) > 0 {
				cause.Message = hostileString(r, []int{0, 5, 500, 20000, 31000, 90000}[r.Intn(6)])
			}
			if r.Intn(3) > 0 {
				cause.WorkingDir = hostileString(r, []int{0, 5, 500, 20000, 31000, 90000}[r.Intn(6)])
			}
			for k := r.Intn(4) * r.Intn(200); k > 0; k-- {
				cause.Paths = append(cause.Paths, hostileString(r, r.Intn(60)))
			}
			for k := r.Intn(3) * r.Intn(80); k > 0; k-- {
				cause.Exceptions = append(cause.Exceptions, c20Exc{Message: hostileString(r, r.Intn(2000)), Type: hostileString(r, r.Intn(20)), Stack: []c20Frame{{Path: hostileString(r, r.Intn(50)), Line: r.Intn(1000), Label: "x"}}})
			}
			b, _ := json.Marshal(cause)
			if r.Intn(10) == 0 && len(b) > 2 {
				b = b[:r.Intn(len(b))] // invalid JSON
			}
			if r.Intn(10) == 0 {
				b = bytes.Replace(b, []byte(`{`), []byte(`{"extra":[1,{"a":"b"}],`), 1)
			}
			if r.Intn(3) == 0 {
				// hand back the unescaped spelling a runtime would send
				for _, p := range [][2]string{{`\u003c`, "<"}, {`\u003e`, ">"}, {`\u0026`, "&"}} {
					b = bytes.ReplaceAll(b, []byte(p[0]), []byte(p[1]))
				}
			}
			checkCause(c, b, "rand")
			n++
			if c.Violated() {
				break
			}
		}
	}
	c.Counter("causes", n)
	c.SetTrace("cause"+d.Salt, true)
	c.SetSample(map[string]interface{}{"documents": n})
}

// ---- runtime identity ----

func runC20Identity(c *Ctx, d c20Desc) {
	r := rng(c.Seed, d.Salt)
	seqs := 0
	for s := 0; s < d.N && !c.Violated(); s++ {
		ctx := appctx.NewApplicationContext()
		prev := ""
		base := ""
		var trace []string
		for k := 1 + r.Intn(6); k > 0; k-- {
			req, _ := http.NewRequest("GET", "http://x/", nil)
			ua := ""
			switch r.Intn(6) {
			case 0:
			case 1:
				ua = "aws-lambda-java/1.8"
			case 2:
				ua = strings.Repeat("u", []int{1, 100, 125, 126, 127, 128, 129, 300}[r.Intn(8)])
			case 3:
				ua = "tok) second third"
			case 4:
				ua = "Mozilla/5.0 (Windows NT 6.1; Win64)"
			default:
				ua = hostileToken(r, 1+r.Intn(40)) + " more"
			}
			if ua != "" {
				req.Header.Set("User-Agent", ua)
			} else {
				req.Header["User-Agent"] = nil
			}
			feat := ""
			switch r.Intn(5) {
			case 0:
			case 1:
				feat = "httpcl/2.0 execwr"
			case 2:
				feat = strings.Repeat("f", []int{1, 60, 118, 119, 120, 121, 122, 300}[r.Intn(8)])
			case 3:
				feat = strings.Repeat("ab ", r.Intn(80)) + "(x) y)"
			default:
				var fs []string
				for j := r.Intn(30); j > 0; j-- {
					fs = append(fs, hostileToken(r, 1+r.Intn(12)))
				}
				feat = strings.Join(fs, " ")
			}
			if feat != "" {
				req.Header.Set("Lambda-Runtime-Features", feat)
			}
			appctx.UpdateAppCtxWithRuntimeRelease(req, ctx)
			cur := appctx.GetRuntimeRelease(ctx)
			trace = append(trace, fmt.Sprintf("ua=%q feat=%q -> %q", truncS(ua, 40), truncS(feat, 40), truncS(cur, 60)))
			uaTok := ""
			if f := strings.Fields(ua); len(f) > 0 {
				uaTok = f[0]
			}
			// bound: never beyond 128 bytes through features
			if prev == "" && cur != "" {
				base = uaTok
				if uaTok == "" {
					base = "Unknown"
				}
			}
			hasFeatures := cur != "" && cur != base
			if hasFeatures {
				c.Check(len(cur) <= 128 && strings.HasPrefix(cur, base+" (") && strings.HasSuffix(cur, ")"), "identity_bounded_128", "C20/identity/too-long-or-malformed", fmt.Sprintf("runtime identity with features is %d bytes / malformed", len(cur)), trace)
			} else {
				c.Clause("identity_token_only")
			}
			// fixed once features were appended
			if strings.HasSuffix(prev, ")") && prev != "" {
				c.Check(cur == prev, "identity_fixed_after_features", "C20/identity/changed-after-features", "runtime identity changed after features had been appended", trace)
			}
			// once set, only ever extended by a feature list
			if prev != "" {
				c.Check(cur == prev || (strings.HasPrefix(cur, prev+" (") && strings.HasSuffix(cur, ")")), "identity_only_extended", "C20/identity/rewritten", "runtime identity was rewritten", trace)
			}
			c.Check(strings.Count(strings.TrimPrefix(cur, base), "(") <= 1 && strings.Count(strings.TrimPrefix(cur, base), ")") <= 1, "identity_single_feature_list", "C20/identity/nested-list", "feature list brackets are not a single well-formed pair", trace)
			prev = cur
		}
		seqs++
	}
	c.Counter("identity_sequences", seqs)
	c.SetTrace("identity"+d.Salt, true)
	c.SetSample(map[string]interface{}{"sequences": seqs})
}

func hostileToken(r *rand.Rand, n int) string {
	b := make([]byte, n)
	for i := range b {
		b[i] = "abcXYZ019/._-()"[r.Intn(15)]
	}
	return string(b)
}

// ---- through the full stack: error handlers, tracer-visible cause, body pass-through ----

func runC20Stack(c *Ctx, d c20Desc) {
	r := rng(c.Seed, d.Salt)
	type step struct {
		Body  []byte
		Cause string
		EType string
	}
	var steps []step
	for i := 0; i < d.N; i++ {
		body := makeBody(fmt.Sprintf("EB|%s|%d|", d.Salt, i), payloadKinds[r.Intn(len(payloadKinds))], []int{0, 1, 50, 5000, 70000}[r.Intn(5)], r)
		cause := ""
		switch r.Intn(5) {
		case 0:
		case 1:
			cause = `{"message":"boom","paths":["/a"],"working_directory":"/var/task","exceptions":[{"message":"m","type":"T"}]}`
		case 2:
			cause = `{"foo":"bar"}`
		case 3:
			cause = `not json`
		default:
			b, _ := json.Marshal(c20Cause{Message: strings.Repeat("q", 40000), WorkingDir: strings.Repeat("w", 40000)})
			cause = string(b)
		}
		steps = append(steps, step{Body: body, Cause: cause, EType: []string{"Function.Custom", "Runtime.Foo", "bogus", "xRuntime.Fooy", ""}[r.Intn(5)]})
	}
	cur := 0
	w, err := NewWorld(vh.Config{TimeoutMs: 20000})
	if err != nil {
		c.Inconclusive("harness: " + err.Error())
		return
	}
	defer w.Close()
	w.RtPlan = func(gen int, p *vh.Proc) vh.ExecPlan {
		return vh.ExecPlan{Behave: w.RtLoop(RtOpts{Handle: func(p *vh.Proc, pt *vh.Party, n int, ev *vh.Resp) *vh.Exit {
			st := steps[cur]
			h := map[string]string{"Content-Type": "application/json"}
			if st.EType != "" {
				h["Lambda-Runtime-Function-Error-Type"] = st.EType
			}
			if st.Cause != "" {
				h["Lambda-Runtime-Function-XRay-Error-Cause"] = st.Cause
			}
			rr := pt.Error(ev.ReqID(), st.Body, h)
			if rr.Status != 202 {
				c.Check(false, "error_accepted", fmt.Sprintf("C20/stack/error-status-%d", rr.Status), "error report with hostile metadata was not accepted", rr.Etype)
			}
			return nil
		}})}
	}
	w.E.Init()
	for i := range steps {
		cur = i
		inv := w.E.InvokeAsync([]byte("e"), vh.InvokeOpts{})
		if !inv.Wait(25 * time.Second) {
			c.Check(false, "error_invocation_returns", "C20/stack/hang", "invocation answered with /error did not return", nil)
			return
		}
		c.Check(inv.Err == nil && bytes.Equal(inv.W.Body(), steps[i].Body), "error_body_untouched", "C20/stack/body-altered/"+diffSig(inv.W.Body(), steps[i].Body), "error body did not reach the caller byte-identical", trunc(inv.W.Body()))
		got, n := w.E.Tr.LastCause()
		if !c.Check(n == i+1, "tracer_saw_invocation", "C20/stack/tracer", "tracer hook did not observe the invocation", n) {
			return
		}
		// the stored cause obeys the same oracle as the direct function
		var in c20Cause
		recognised := json.Unmarshal([]byte(steps[i].Cause), &in) == nil && (in.Message != "" || in.WorkingDir != "" || len(in.Paths) > 0 || len(in.Exceptions) > 0)
		if !recognised || !utf8.ValidString(steps[i].Cause) {
			c.Check(got == "" || got == "null", "stored_cause_dropped", "C20/stack/cause-not-dropped", "an unrecognised error cause was stored for the tracer", truncS(got, 200))
		} else {
			c.Check(len(got) > 0 && len(got) <= model.MaxErrorCauseSizeBytes && json.Valid([]byte(got)), "stored_cause_bounded", "C20/stack/cause-unbounded", fmt.Sprintf("stored error cause is %d bytes / invalid", len(got)), nil)
		}
	}
	c.SetTrace("stack"+d.Salt, true)
	if c.WantSample || c.Violated() {
		c.SetSample(sampleLog(w, 40))
	}
}
