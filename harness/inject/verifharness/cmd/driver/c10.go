package main

import (
	"bytes"
	"fmt"
	"sync"
	"time"

	"go.amzn.com/verifharness/vh"
)

// C10 — at most one invocation in flight; extra callers are refused harmlessly.

func init() { register("C10", genC10) }

type c10Desc struct {
	Phase   string `json:"phase"`
	Extra   int    `json:"extra_callers"`
	Exts    int    `json:"extensions"`
	Offset  int    `json:"offset_us,omitempty"`
	History int    `json:"history,omitempty"`
}

var c10Phases = []string{"init", "reserved", "working", "responded", "timeoutFired", "resetting", "releaseFailed", "failureReset", "initTimedOut", "returned"}

func genC10(tier string, seed int64) []Case {
	var cases []Case
	add := func(d c10Desc) {
		id := fmt.Sprintf("C10/%s/x%d/e%d/o%d/h%d", d.Phase, d.Extra, d.Exts, d.Offset, d.History)
		cases = append(cases, Case{ID: id, Class: d.Phase, Desc: d, Run: func(c *Ctx) { runC10(c, d) }})
	}
	for _, ph := range c10Phases {
		for _, extra := range []int{1, 2} {
			exts := 0
			if ph == "responded" {
				exts = 1
			}
			add(c10Desc{Phase: ph, Extra: extra, Exts: exts})
		}
	}
	// a caller arriving in the window between the release of a finished invocation (or of a finished reset)
	// and the moment its Invoke / Reset call returns: refused or served, but never half-served
	for _, ph := range []string{"finalRelease", "resetFinalRelease"} {
		for _, exts := range []int{0, 1} {
			d := c10Desc{Phase: ph, Extra: 1, Exts: exts}
			id := fmt.Sprintf("C10/%s/x%d/e%d/o%d/h%d", d.Phase, d.Extra, d.Exts, d.Offset, d.History)
			cases = append(cases, Case{ID: id, Class: d.Phase, Desc: d, Run: func(c *Ctx) { runC10Window(c, d) }})
		}
	}
	// callers arriving at the same instant on an idle instance: exactly one is admitted per round
	for _, n := range []int{8, 4} {
		d := c10Desc{Phase: "burst", Extra: n, Exts: 0}
		id := fmt.Sprintf("C10/%s/x%d/e%d/o%d/h%d", d.Phase, d.Extra, d.Exts, d.Offset, d.History)
		cases = append(cases, Case{ID: id, Class: d.Phase, Desc: d, Timeout: 200 * time.Second, Run: func(c *Ctx) { runC10Burst(c, d, map[bool]int{true: 1500, false: 250}[tier == "thorough"]) }})
	}
	// with an extension present in every phase
	for _, ph := range c10Phases {
		add(c10Desc{Phase: ph, Extra: 1, Exts: 1, History: 1})
	}
	if tier == "thorough" {
		r := rng(seed, "C10")
		for i := 0; i < 1200; i++ {
			ph := c10Phases[r.Intn(len(c10Phases))]
			d := c10Desc{Phase: ph, Extra: 1 + r.Intn(3), Exts: r.Intn(3), Offset: r.Intn(3000), History: r.Intn(4)}
			if ph == "responded" && d.Exts == 0 {
				// without an extension the invocation is OVER once the runtime asked
				// for the next event: a caller arriving then is legitimately served
				d.Exts = 1
			}
			add(d)
		}
	}
	return cases
}

func runC10(c *Ctx, d c10Desc) {
	timeout := int64(5000)
	if d.Phase == "timeoutFired" || d.Phase == "resetting" || d.Phase == "initTimedOut" {
		timeout = 250
	}
	exts := []string{}
	for i := 0; i < d.Exts; i++ {
		exts = append(exts, fmt.Sprintf("ext%d", i))
	}
	w, err := NewWorld(vh.Config{TimeoutMs: timeout, Extensions: exts})
	if err != nil {
		c.Inconclusive("harness: " + err.Error())
		return
	}
	defer w.Close()
	hk := w.Hk

	// runtime: puppet in generation 1 (driver-controlled), autonomous afterwards
	w.RtPlan = func(gen int, p *vh.Proc) vh.ExecPlan {
		if gen == 1 {
			return vh.ExecPlan{Behave: vh.Puppet{ExitOnTerm: true}.Run}
		}
		return vh.ExecPlan{Behave: w.RtLoop(RtOpts{})}
	}
	// extensions: puppets in generation 1 too
	w.ExtPlan = func(base string, gen int, p *vh.Proc) vh.ExecPlan {
		if gen == 1 {
			return vh.ExecPlan{Behave: vh.Puppet{ExitOnTerm: true}.Run}
		}
		return vh.ExecPlan{Behave: w.ExtLoop(ExtOpts{Events: []string{"INVOKE", "SHUTDOWN"}})}
	}
	w.E.Init()

	// drive extensions through register (+ park in next later)
	var extPt []*vh.Party
	var extNext []*vh.Async
	for _, n := range exts {
		p := w.E.WaitExt(n, 1, 5*time.Second)
		if p == nil {
			c.Inconclusive("harness: extension not started")
			return
		}
		pt := w.Party(p)
		if r := pt.Register(n, []string{"INVOKE"}, ""); r.Status != 200 {
			c.Inconclusive("harness: register failed")
			return
		}
		extPt = append(extPt, pt)
	}
	rtp := w.E.WaitRuntime(1, 5*time.Second)
	if rtp == nil {
		c.Inconclusive("harness: runtime not started")
		return
	}
	rt := w.Party(rtp)

	extra := func() []*vh.Invocation {
		var res []*vh.Invocation
		for i := 0; i < d.Extra; i++ {
			if d.Offset > 0 && i > 0 {
				time.Sleep(time.Duration(d.Offset) * time.Microsecond)
			}
			res = append(res, w.E.InvokeAsync([]byte(fmt.Sprintf("extra-%d", i)), vh.InvokeOpts{}))
		}
		return res
	}
	parkExts := func() {
		for i, pt := range extPt {
			pt := pt
			a := vh.Go(func() *vh.Resp { return pt.ExtNext() })
			name := exts[i]
			vh.Settle(a, func() bool { return w.E.ExtState(name) == "Ready" }, 3*time.Second)
			extNext = append(extNext, a)
		}
	}

	// optional healthy history first (driver-operated)
	var firstNext *vh.Async
	startNext := func() {
		firstNext = vh.Go(func() *vh.Resp { return rt.Next() })
	}
	complete := func(inv *vh.Invocation, body []byte) bool {
		ev := firstNext.Wait(5 * time.Second)
		if ev == nil || ev.Status != 200 {
			return false
		}
		rt.Respond(ev.ReqID(), body, nil)
		startNext()
		for i, a := range extNext {
			if r := a.Wait(5 * time.Second); r == nil {
				return false
			}
			pt := extPt[i]
			extNext[i] = vh.Go(func() *vh.Resp { return pt.ExtNext() })
		}
		return inv.Wait(5 * time.Second)
	}

	var first *vh.Invocation
	var extras []*vh.Invocation
	payload := []byte("first-payload")
	expectFirst := "ok"

	if d.Phase == "initTimedOut" {
		// the first caller arrives during an initialisation that never completes and hits its timeout while
		// still waiting for it; the extra callers arrive while the timeout reset is tearing the init down.
		// They are refused - and the timed-out invocation stays what it is: never dispatched, empty answer.
		expectFirst = "timeout"
		hk.Hold("handleReset.flowsCancelled", 0)
		hk.Hold("invoke.initFailed", 0)
		first = w.E.InvokeAsync(payload, vh.InvokeOpts{})
		if !hk.WaitHeld("handleReset.flowsCancelled", 5*time.Second) {
			c.Inconclusive("hook handleReset.flowsCancelled not reached")
			return
		}
		// the goroutine that waited for the initialisation on the first caller's behalf is held where it learns
		// that the init failed (it is about to look at "did my invocation time out?"), the reset is held after
		// cancelling the flows: both are pending while the extras arrive
		if !hk.WaitHeld("invoke.initFailed", 5*time.Second) {
			c.Inconclusive("hook invoke.initFailed not reached")
			return
		}
		time.Sleep(2 * time.Millisecond)
		extras = extra()
		for _, x := range extras {
			x.Wait(3 * time.Second)
		}
		// the reset goes on and finishes; the helper stays held until the NEXT invocation has been served
		hk.Release("handleReset.flowsCancelled")
	} else if d.Phase == "init" {
		before := hk.Arrived()["invoke.reserved"]
		first = w.E.InvokeAsync(payload, vh.InvokeOpts{})
		// the extra callers must arrive AFTER the first one holds the reservation (on a loaded machine its
		// goroutine may take longer than any fixed sleep to get there)
		for dl := time.Now().Add(3 * time.Second); hk.Arrived()["invoke.reserved"] == before && time.Now().Before(dl); {
			time.Sleep(50 * time.Microsecond)
		}
		time.Sleep(time.Millisecond)
		extras = extra()
		// now let init finish
		parkExts()
		startNext()
	} else {
		parkExts()
		startNext()
		vh.Settle(firstNext, func() bool { return w.E.RuntimeState() == "Ready" }, 3*time.Second)
		for h := 0; h < d.History; h++ {
			inv := w.E.InvokeAsync([]byte(fmt.Sprintf("hist-%d", h)), vh.InvokeOpts{})
			if !complete(inv, []byte(fmt.Sprintf("histresp-%d", h))) || inv.Err != nil {
				c.Inconclusive(fmt.Sprintf("harness: history invocation %d did not complete: %v", h, inv.Err))
				return
			}
		}
	}

	switch d.Phase {
	case "init":
		// handled above
	case "reserved":
		hk.Hold("invoke.reserved", 0)
		first = w.E.InvokeAsync(payload, vh.InvokeOpts{})
		if !hk.WaitHeld("invoke.reserved", 3*time.Second) {
			c.Inconclusive("hook invoke.reserved not reached")
			return
		}
		extras = extra()
		// extras must be refused while first is still held
		for _, x := range extras {
			x.Wait(3 * time.Second)
		}
		hk.Release("invoke.reserved")
	case "working":
		first = w.E.InvokeAsync(payload, vh.InvokeOpts{})
		if ev := firstNext.Wait(5 * time.Second); ev == nil {
			c.Inconclusive("runtime did not get the event")
			return
		}
		extras = extra()
		for _, x := range extras {
			x.Wait(3 * time.Second)
		}
	case "responded":
		first = w.E.InvokeAsync(payload, vh.InvokeOpts{})
		ev := firstNext.Wait(5 * time.Second)
		if ev == nil {
			c.Inconclusive("runtime did not get the event")
			return
		}
		rt.Respond(ev.ReqID(), []byte("resp-first"), nil)
		startNext()
		vh.Settle(firstNext, func() bool { return w.E.RuntimeState() == "Ready" }, 3*time.Second)
		// extensions have their event but have not called next again
		extras = extra()
		for _, x := range extras {
			x.Wait(3 * time.Second)
		}
	case "timeoutFired":
		expectFirst = "timeout"
		hk.Hold("invoke.timeoutFired", 0)
		first = w.E.InvokeAsync(payload, vh.InvokeOpts{})
		if !hk.WaitHeld("invoke.timeoutFired", 5*time.Second) {
			c.Inconclusive("hook invoke.timeoutFired not reached")
			return
		}
		extras = extra()
		for _, x := range extras {
			x.Wait(3 * time.Second)
		}
		hk.Release("invoke.timeoutFired")
	case "resetting":
		expectFirst = "timeout"
		hk.Hold("handleReset.flowsCancelled", 0)
		first = w.E.InvokeAsync(payload, vh.InvokeOpts{})
		if !hk.WaitHeld("handleReset.flowsCancelled", 5*time.Second) {
			c.Inconclusive("hook handleReset.flowsCancelled not reached")
			return
		}
		extras = extra()
		for _, x := range extras {
			x.Wait(3 * time.Second)
		}
		hk.Release("handleReset.flowsCancelled")
	case "releaseFailed", "failureReset":
		// the invocation FAILS (its runtime exits while working); the extra callers arrive after the failure
		// was noticed, before / while the reset that ends a failed invocation runs
		expectFirst = "invokefail"
		hookName := map[string]string{"releaseFailed": "invoke.releaseFailed", "failureReset": "handleReset.flowsCancelled"}[d.Phase]
		hk.Hold(hookName, 0)
		first = w.E.InvokeAsync(payload, vh.InvokeOpts{})
		if ev := firstNext.Wait(5 * time.Second); ev == nil {
			c.Inconclusive("runtime did not get the event")
			return
		}
		rtp.RequestExit(vh.Exit{Code: 1})
		if !hk.WaitHeld(hookName, 5*time.Second) {
			c.Inconclusive("hook " + hookName + " not reached")
			return
		}
		extras = extra()
		for _, x := range extras {
			x.Wait(3 * time.Second)
		}
		hk.Release(hookName)
	case "returned":
		first = w.E.InvokeAsync(payload, vh.InvokeOpts{})
		if !complete(first, []byte("resp-first")) {
			c.Inconclusive("harness: first invocation did not complete")
			return
		}
	}

	// --- oracle on the extra callers: refused, promptly, before first finished ---
	if d.Phase != "returned" {
		for i, x := range extras {
			if !x.Wait(3 * time.Second) {
				c.Check(false, "extra_refused", "C10/extra-hangs/"+d.Phase, "extra caller was not answered while the first invocation was in flight", d)
				continue
			}
			ok := x.Err != nil && vh.ErrName(x.Err) == "alreadyreserved"
			c.Check(ok, "extra_refused", "C10/extra-not-refused/"+d.Phase+"/"+vh.ErrName(x.Err),
				fmt.Sprintf("extra caller %d got %q instead of a client error", i, vh.ErrName(x.Err)), d)
			c.Check(x.W.NWrites() == 0, "extra_no_body", "C10/extra-got-body/"+d.Phase, "refused caller received a body", string(x.W.Body()))
			if first.Done() && first.RetSeq < x.RetSeq && d.Phase != "init" {
				c.Check(false, "extra_immediate", "C10/extra-late/"+d.Phase, "refusal arrived after the in-flight invocation finished", nil)
			} else {
				c.Clause("extra_immediate")
			}
		}
	}

	// --- finish the first invocation ---
	switch d.Phase {
	case "init", "reserved", "working":
		if !complete(first, []byte("resp-first")) {
			c.Check(false, "first_unaffected", "C10/first-disturbed/"+d.Phase, "in-flight invocation did not complete after extra callers were refused", vh.ErrName(first.Err))
		}
	case "responded":
		for i, a := range extNext {
			a.Wait(3 * time.Second)
			pt := extPt[i]
			extNext[i] = vh.Go(func() *vh.Resp { return pt.ExtNext() })
		}
		first.Wait(5 * time.Second)
	default:
		first.Wait(8 * time.Second)
	}
	if !first.Done() {
		c.Check(false, "first_unaffected", "C10/first-hangs/"+d.Phase, "in-flight invocation never returned", nil)
		return
	}
	c.Check(vh.ErrName(first.Err) == expectFirst, "first_unaffected", "C10/first-outcome/"+d.Phase+"/"+vh.ErrName(first.Err),
		fmt.Sprintf("in-flight invocation ended %q, expected %q", vh.ErrName(first.Err), expectFirst), nil)
	if expectFirst == "ok" {
		c.Check(bytes.Equal(first.W.Body(), []byte("resp-first")), "first_body", "C10/first-body/"+d.Phase, "in-flight invocation's body changed", string(first.W.Body()))
		// the runtime must have seen exactly the events of the history + first
		n := 0
		for _, h := range rt.History() {
			if h.Op == "next" && h.Resp != nil && h.Resp.Status == 200 {
				n++
			}
		}
		c.Check(n == d.History+1 || (d.Phase == "init" && n == 1), "no_extra_dispatch", "C10/extra-dispatched/"+d.Phase, fmt.Sprintf("runtime received %d events, expected %d", n, d.History+1), nil)
	}

	// --- "returned" phase: a caller right after completion must be served ---
	if d.Phase == "returned" {
		x := w.E.InvokeAsync([]byte("after"), vh.InvokeOpts{})
		ok := complete(x, []byte("resp-after")) && x.Err == nil
		c.Check(ok, "sequential_ok", "C10/sequential-refused", "a caller arriving after completion was not served", vh.ErrName(x.Err))
	}

	// --- the next sequential invocation succeeds ---
	var nxt *vh.Invocation
	if expectFirst == "ok" {
		nxt = w.E.InvokeAsync([]byte("next-one"), vh.InvokeOpts{})
		ok := complete(nxt, []byte("resp-next")) && nxt.Err == nil && bytes.Equal(nxt.W.Body(), []byte("resp-next"))
		c.Check(ok, "next_ok", "C10/next-fails/"+d.Phase, "the next sequential invocation failed", vh.ErrName(nxt.Err))
	} else {
		// generation 3 is autonomous; its cold start is not what is being timed here (the short timeout of this
		// world only served to make the first invocation expire quickly)
		w.E.Srv.SetInvokeTimeout(5 * time.Second)
		nxt = w.E.InvokeAsync([]byte("next-one"), vh.InvokeOpts{})
		ok := nxt.Wait(6*time.Second) && nxt.Err == nil && bytes.Equal(nxt.W.Body(), EchoBody([]byte("next-one")))
		c.Check(ok, "next_ok", "C10/next-fails/"+d.Phase, "the next sequential invocation (after reset) failed", vh.ErrName(nxt.Err))
	}
	if d.Phase == "initTimedOut" {
		// only now does the first caller's helper get to act on the failed initialisation: whatever it does must not
		// touch the generation that has just served an invocation
		hk.Release("invoke.initFailed")
		time.Sleep(150 * time.Millisecond)
		nxt2 := w.E.InvokeAsync([]byte("next-two"), vh.InvokeOpts{})
		ok := nxt2.Wait(8*time.Second) && nxt2.Err == nil && bytes.Equal(nxt2.W.Body(), EchoBody([]byte("next-two")))
		c.Check(ok, "next_ok", "C10/next-fails/initTimedOut/after-helper", "the second invocation after the timed-out one failed (the helper of the timed-out invocation acted on a later generation)", vh.ErrName(nxt2.Err))
	}
	if d.Phase == "initTimedOut" {
		n := 0
		for _, e := range w.E.Log.Snapshot() {
			if e.Kind == "ret" && e.Op == "next" && e.Status == 200 && e.Len == len(payload) && e.Sha == vh.Digest(payload) {
				n++
			}
		}
		c.Check(n == 0, "timed_out_not_dispatched", fmt.Sprintf("C10/timed-out-invocation-dispatched/%d", n), "the invocation that timed out while waiting for init was delivered to a runtime after extra callers had been refused", nil)
		c.Check(len(first.W.Body()) == 0 && first.W.LateWrites() == 0, "first_body", "C10/first-body/"+d.Phase, "the timed-out invocation received a body", string(first.W.Body()))
	}

	c.SetHooks(hk.Arrived())
	c.SetTrace(NormTrace(w.E.Log.Snapshot(), func(e vh.Event) bool { return e.Src != "hook" && e.Kind != "write" }), true)
	c.SetInterleaving(d.Phase + fmt.Sprintf("/x%d", d.Extra))
	if c.WantSample || c.Violated() {
		c.SetSample(sampleLog(w, 120))
	}
}

// runC10Window: the first invocation (or its timeout reset) is complete as far as the platform state is
// concerned - its reservation has been released - but the goroutine that served it is paused just before
// its trailing, redundant release. A caller arriving now is either refused or served; being admitted and
// then having its reservation cancelled by the earlier invocation's clean-up is neither.
func runC10Window(c *Ctx, d c10Desc) {
	timeout := int64(5000)
	hook := "invoke.beforeFinalRelease"
	if d.Phase == "resetFinalRelease" {
		timeout, hook = 250, "serverReset.beforeFinalRelease"
	}
	exts := []string{}
	for i := 0; i < d.Exts; i++ {
		exts = append(exts, fmt.Sprintf("ext%d", i))
	}
	w, err := NewWorld(vh.Config{TimeoutMs: timeout, Extensions: exts})
	if err != nil {
		c.Inconclusive("harness: " + err.Error())
		return
	}
	defer w.Close()
	hk := w.Hk
	respond := func(ev []byte) []byte { return append([]byte("R:"), ev...) }
	stallFirst := d.Phase == "resetFinalRelease"
	gotExtra, answerExtra := make(chan struct{}), make(chan struct{})
	var gotOnce sync.Once
	w.RtPlan = func(gen int, p *vh.Proc) vh.ExecPlan {
		return vh.ExecPlan{Behave: w.RtLoop(RtOpts{Handle: func(p *vh.Proc, pt *vh.Party, n int, ev *vh.Resp) *vh.Exit {
			if stallFirst && gen == 1 {
				return Stall(p)
			}
			if bytes.Equal(ev.Body, []byte("extra-0")) {
				// the newcomer is in flight: tell the conductor, answer only when told to
				gotOnce.Do(func() { close(gotExtra) })
				select {
				case <-answerExtra:
				case <-p.Ctx.Done():
					return nil
				}
			}
			pt.Respond(ev.ReqID(), respond(ev.Body), nil)
			return nil
		}})}
	}
	w.ExtPlan = func(base string, gen int, p *vh.Proc) vh.ExecPlan {
		return vh.ExecPlan{Behave: w.ExtLoop(ExtOpts{Events: []string{"INVOKE", "SHUTDOWN"}})}
	}
	hk.Hold(hook, 0)
	w.E.Init()
	first := w.E.InvokeAsync([]byte("first-payload"), vh.InvokeOpts{})
	if !hk.WaitHeld(hook, 10*time.Second) {
		c.Inconclusive("pause point " + hook + " not reached")
		return
	}
	c.Check(!first.Done(), "first_paused", "C10/harness-window", "the first invocation returned although its goroutine is paused", nil)
	x := w.E.InvokeAsync([]byte("extra-0"), vh.InvokeOpts{})
	// let the newcomer get as far as it gets: refused at once, or dispatched to the runtime (then it is in
	// flight when the paused goroutine resumes; it is answered only afterwards)
	refusedEarly := false
	select {
	case <-gotExtra:
	case <-time.After(3 * time.Second):
		refusedEarly = x.Done()
	}
	hk.Release(hook)
	time.Sleep(5 * time.Millisecond)
	close(answerExtra)
	if !first.Wait(8 * time.Second) {
		c.Check(false, "first_unaffected", "C10/first-hangs/"+d.Phase, "the paused invocation never returned after the pause", nil)
		return
	}
	wantFirst := "ok"
	if stallFirst {
		wantFirst = "timeout"
	}
	c.Check(vh.ErrName(first.Err) == wantFirst, "first_unaffected", "C10/first-outcome/"+d.Phase+"/"+vh.ErrName(first.Err), fmt.Sprintf("first invocation ended %q, expected %q", vh.ErrName(first.Err), wantFirst), nil)
	if !x.Wait(10 * time.Second) {
		c.Check(false, "window_caller_refused_or_served", "C10/window/"+d.Phase+"/hangs", "a caller arriving between the release and the return of the previous invocation was never answered", nil)
		c.SetSample(sampleLog(w, 160))
		return
	}
	out := vh.ErrName(x.Err)
	served := x.Err == nil && bytes.Equal(x.W.Body(), respond([]byte("extra-0")))
	refused := out == "alreadyreserved" && x.W.NWrites() == 0
	c.Check(served || refused, "window_caller_refused_or_served", "C10/window/"+d.Phase+"/"+out, fmt.Sprintf("a caller arriving between the release and the return of the previous invocation was neither refused nor served: outcome %q, body %s", out, trunc(x.W.Body())), nil)
	if served {
		c.Counter("window_caller_served", 1)
	} else if refused {
		c.Counter("window_caller_refused", 1)
	}
	_ = refusedEarly
	// and later invocations are unaffected
	nxt := w.E.InvokeAsync([]byte("next-one"), vh.InvokeOpts{})
	ok := nxt.Wait(8*time.Second) && nxt.Err == nil && bytes.Equal(nxt.W.Body(), respond([]byte("next-one")))
	c.Check(ok, "next_ok", "C10/next-fails/"+d.Phase, "the next sequential invocation failed", vh.ErrName(nxt.Err))
	c.SetHooks(hk.Arrived())
	c.SetTrace(d.Phase+fmt.Sprint(d.Exts)+out, true)
	c.SetInterleaving(d.Phase + "/" + out)
	if c.WantSample || c.Violated() {
		c.SetSample(sampleLog(w, 160))
	}
}

// runC10Burst releases d.Extra callers from a barrier at the same instant, round after round, on an idle instance
// with a healthy runtime. Per round: every caller is either served with its own answer or refused, at least one
// is served, and the runtime received exactly as many events as callers were served - in fact exactly one can be
// admitted at a time, the others (arriving while it is in flight) are refused.
func runC10Burst(c *Ctx, d c10Desc, rounds int) {
	w, err := NewWorld(vh.Config{TimeoutMs: 5000})
	if err != nil {
		c.Inconclusive("harness: " + err.Error())
		return
	}
	defer w.Close()
	var mu sync.Mutex
	delivered := 0
	w.RtPlan = func(gen int, p *vh.Proc) vh.ExecPlan {
		return vh.ExecPlan{Behave: w.RtLoop(RtOpts{Handle: func(p *vh.Proc, pt *vh.Party, n int, ev *vh.Resp) *vh.Exit {
			mu.Lock()
			delivered++
			mu.Unlock()
			time.Sleep(300 * time.Microsecond) // in flight long enough for every other caller of the round to arrive
			pt.Respond(ev.ReqID(), append([]byte("R:"), ev.Body...), nil)
			return nil
		}})}
	}
	w.E.Init()
	for dl := time.Now().Add(5 * time.Second); time.Now().Before(dl) && w.E.RuntimeState() != "Ready"; {
		time.Sleep(200 * time.Microsecond)
	}
	multi := 0
	for r := 0; r < rounds && !c.Violated(); r++ {
		mu.Lock()
		before := delivered
		mu.Unlock()
		start := make(chan struct{})
		invs := make([]*vh.Invocation, d.Extra)
		var wg sync.WaitGroup
		for i := range invs {
			wg.Add(1)
			go func(i int) {
				defer wg.Done()
				<-start
				invs[i] = w.E.InvokeAsync([]byte(fmt.Sprintf("burst-%d-%d", r, i)), vh.InvokeOpts{})
			}(i)
		}
		close(start)
		wg.Wait()
		served := 0
		for i, x := range invs {
			if !x.Wait(8 * time.Second) {
				c.Check(false, "burst_answered", "C10/burst/hang", fmt.Sprintf("round %d: caller %d of a simultaneous burst was never answered", r, i), nil)
				c.SetSample(sampleLog(w, 120))
				return
			}
			ok := x.Err == nil && bytes.Equal(x.W.Body(), []byte(fmt.Sprintf("R:burst-%d-%d", r, i)))
			refused := vh.ErrName(x.Err) == "alreadyreserved" && x.W.NWrites() == 0
			if ok {
				served++
			}
			c.Check(ok || refused, "burst_served_or_refused", "C10/burst/"+vh.ErrName(x.Err), fmt.Sprintf("round %d: caller %d was neither served with its own answer nor refused: outcome %q body %s", r, i, vh.ErrName(x.Err), trunc(x.W.Body())), nil)
		}
		// let the runtime get back to next
		for dl := time.Now().Add(3 * time.Second); time.Now().Before(dl) && w.E.RuntimeState() != "Ready"; {
			time.Sleep(100 * time.Microsecond)
		}
		mu.Lock()
		got := delivered - before
		mu.Unlock()
		c.Check(served >= 1, "burst_one_admitted", "C10/burst/nobody-served", fmt.Sprintf("round %d: none of %d simultaneous callers was served", r, d.Extra), nil)
		c.Check(got == served, "burst_dispatch_matches", fmt.Sprintf("C10/burst/dispatched-%d-served-%d", got, served), fmt.Sprintf("round %d: the runtime received %d events, %d callers were served", r, got, served), nil)
		if served > 1 {
			multi++
		}
	}
	// several callers of one round may be served one after the other (the first finished before the next arrived);
	// what must never happen is two at once - that shows as a caller with an empty / foreign answer or a dispatch mismatch
	c.Counter("burst_rounds", rounds)
	c.Counter("burst_rounds_with_several_served_in_turn", multi)
	c.SetTrace(fmt.Sprintf("burst%d", d.Extra), true)
	c.SetInterleaving(fmt.Sprintf("burst/x%d", d.Extra))
	if c.WantSample || c.Violated() {
		c.SetSample(sampleLog(w, 160))
	}
}
