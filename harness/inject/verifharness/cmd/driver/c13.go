package main

import (
	"context"
	"encoding/json"
	"fmt"
	"sort"
	"strings"
	"time"

	"go.amzn.com/verifharness/vh"
)

// C13 — Extensions API: registration rules and lifecycle automaton.

func init() { register("C13", genC13) }

type c13Op struct {
	Ext  int    `json:"ext"`           // index into the extension list
	Op   string `json:"op"`            // register | next | initerr | exiterr | id-missing | id-invalid | id-unknown | id-other | noerrtype
	Arg  string `json:"arg,omitempty"` // register: event-list variant; name variant
	Name string `json:"name,omitempty"`
	Feat string `json:"feat,omitempty"`
}

type c13Desc struct {
	Kinds    []string `json:"kinds"` // per extension: "ext" | "int"
	Ops      []c13Op  `json:"ops"`
	Special  string   `json:"special,omitempty"`  // overflow-external | overflow-internal
	Snapshot bool     `json:"snapshot,omitempty"` // init-caching mode
}

var c13EventVariants = map[string]string{
	"IS":        `{"events":["INVOKE","SHUTDOWN"]}`,
	"I":         `{"events":["INVOKE"]}`,
	"S":         `{"events":["SHUTDOWN"]}`,
	"none":      `{"events":[]}`,
	"null":      `{"events":null}`,
	"missing":   `{}`,
	"dup":       `{"events":["INVOKE","INVOKE"]}`,
	"unknown":   `{"events":["BOGUS"]}`,
	"mixed":     `{"events":["INVOKE","BOGUS"]}`,
	"mixed2":    `{"events":["BOGUS","INVOKE"]}`,
	"mixed3":    `{"events":["INVOKE","BOGUS","SHUTDOWN"]}`,
	"mixed4":    `{"events":["invoke","SHUTDOWN"]}`,
	"SI":        `{"events":["SHUTDOWN","INVOKE"]}`,
	"lower":     `{"events":["invoke"]}`,
	"badtype":   `{"events":"INVOKE"}`,
	"badjson":   `{"events":["INVOKE"`,
	"cfgkeys":   `{"events":["INVOKE"],"configurationKeys":["a"]}`,
	"emptybody": ``,
}

func c13EventsOf(variant string) (events []string, valid bool, reason string) {
	switch variant {
	case "IS", "SI":
		return []string{"INVOKE", "SHUTDOWN"}, true, ""
	case "I", "dup":
		return []string{"INVOKE"}, true, ""
	case "S":
		return []string{"SHUTDOWN"}, true, ""
	case "none", "null", "missing":
		return nil, true, ""
	case "unknown", "mixed", "mixed2", "mixed3", "mixed4", "lower":
		return nil, false, "Extension.InvalidEventType"
	default:
		return nil, false, "InvalidRequestFormat"
	}
}

func genC13(tier string, seed int64) []Case {
	var cases []Case
	seen := map[string]bool{}
	add := func(d c13Desc) {
		b, _ := json.Marshal(d)
		id := "C13/" + vh.Digest(b) + "/" + fmt.Sprintf("%v/%d", d.Kinds, len(d.Ops)) + d.Special
		if d.Snapshot {
			id += "/snapshot"
		}
		if seen[id] {
			return
		}
		seen[id] = true
		cases = append(cases, Case{ID: id, Class: fmt.Sprintf("%d-ext/%s", len(d.Kinds), d.Special), Desc: d, Run: func(c *Ctx) { runC13(c, d) }})
	}
	variants := []string{}
	for k := range c13EventVariants {
		variants = append(variants, k)
	}
	sort.Strings(variants)
	lifecycle := []string{"register", "next", "initerr", "exiterr", "id-missing", "id-invalid", "id-unknown", "noerrtype", "noerrtype-exit"}
	// single extension: every register variant followed by every pair of lifecycle calls
	for _, kind := range []string{"ext", "int"} {
		for _, v := range variants {
			add(c13Desc{Kinds: []string{kind}, Ops: []c13Op{{Ext: 0, Op: "register", Arg: v}}})
			add(c13Desc{Kinds: []string{kind}, Ops: []c13Op{{Ext: 0, Op: "register", Arg: v}, {Ext: 0, Op: "register", Arg: "IS"}, {Ext: 0, Op: "next"}}})
		}
		for _, a := range lifecycle {
			for _, b := range lifecycle {
				add(c13Desc{Kinds: []string{kind}, Ops: []c13Op{{Ext: 0, Op: "register", Arg: "I"}, {Ext: 0, Op: a, Arg: "I"}, {Ext: 0, Op: b, Arg: "I"}}})
				add(c13Desc{Kinds: []string{kind}, Ops: []c13Op{{Ext: 0, Op: a, Arg: "I"}, {Ext: 0, Op: "register", Arg: "I", Feat: "accountId"}, {Ext: 0, Op: b, Arg: "I"}}})
			}
		}
		// a refused registration (invalid entry anywhere in the list) followed by a corrected retry and the rest of the life cycle
		for _, bad := range []string{"mixed", "mixed2", "mixed3", "mixed4", "SI", "unknown"} {
			for _, good := range []string{"I", "none", "IS"} {
				add(c13Desc{Kinds: []string{kind}, Ops: []c13Op{{Ext: 0, Op: "register", Arg: bad}, {Ext: 0, Op: "register", Arg: good}, {Ext: 0, Op: "next"}}})
				add(c13Desc{Kinds: []string{"ext", kind}, Ops: []c13Op{{Ext: 0, Op: "register", Arg: "I"}, {Ext: 1, Op: "register", Arg: bad}, {Ext: 1, Op: "register", Arg: good}, {Ext: 0, Op: "next"}, {Ext: 1, Op: "next"}}})
			}
		}
		for _, feat := range []string{"accountId", "bogus", " accountId , other", "other,accountId", "ACCOUNTID"} {
			add(c13Desc{Kinds: []string{kind}, Ops: []c13Op{{Ext: 0, Op: "register", Arg: "I", Feat: feat}, {Ext: 0, Op: "next"}}})
			// the same in init-caching (snapshot) mode, where the function metadata takes another path
			add(c13Desc{Snapshot: true, Kinds: []string{kind}, Ops: []c13Op{{Ext: 0, Op: "register", Arg: "I", Feat: feat}, {Ext: 0, Op: "next"}}})
		}
		add(c13Desc{Snapshot: true, Kinds: []string{kind, "ext"}, Ops: []c13Op{{Ext: 0, Op: "register", Arg: "IS", Feat: "accountId"}, {Ext: 1, Op: "register", Arg: "I"}, {Ext: 0, Op: "next"}, {Ext: 1, Op: "exiterr"}}})
	}
	// names: empty, colliding across kinds, UTF-8, long
	for _, nm := range []string{"<empty>", "<ext0>", "<int-dup>", "ünï-ñame", "<long>"} {
		add(c13Desc{Kinds: []string{"ext", "int", "int"}, Ops: []c13Op{
			{Ext: 0, Op: "register", Arg: "IS"}, {Ext: 1, Op: "register", Arg: "I"}, {Ext: 2, Op: "register", Arg: "I", Name: nm}, {Ext: 2, Op: "next"}, {Ext: 1, Op: "id-other"}}})
	}
	add(c13Desc{Kinds: []string{"ext"}, Special: "overflow-external"})
	add(c13Desc{Kinds: []string{"ext"}, Special: "overflow-internal"})
	// random interleavings for 1..3 extensions
	r := rng(seed, "C13")
	n := 500
	if tier == "thorough" {
		n = 30000
	}
	allOps := []string{"register", "register", "next", "next", "initerr", "exiterr", "id-missing", "id-invalid", "id-unknown", "id-other", "noerrtype", "noerrtype-exit"}
	for i := 0; i < n; i++ {
		ne := 1 + r.Intn(3)
		d := c13Desc{}
		for k := 0; k < ne; k++ {
			d.Kinds = append(d.Kinds, []string{"ext", "int"}[r.Intn(2)])
		}
		l := 3 + r.Intn(6)
		for j := 0; j < l; j++ {
			op := c13Op{Ext: r.Intn(ne), Op: allOps[r.Intn(len(allOps))]}
			if op.Op == "register" {
				if r.Intn(3) > 0 {
					op.Arg = []string{"IS", "I", "S", "none"}[r.Intn(4)]
				} else {
					op.Arg = variants[r.Intn(len(variants))]
				}
				if r.Intn(4) == 0 {
					op.Feat = []string{"accountId", "x", "accountId,y"}[r.Intn(3)]
				}
				if r.Intn(8) == 0 {
					op.Name = []string{"<empty>", "<ext0>", "<int-dup>"}[r.Intn(3)]
				}
			}
			d.Ops = append(d.Ops, op)
		}
		d.Snapshot = r.Intn(5) == 0
		add(d)
	}
	return cases
}

type c13Ext struct {
	kind   string
	name   string
	state  string // Absent | Started | Registered | Ready | InitError | ExitError
	events []string
	id     string
	pt     *vh.Party
	pt2    *vh.Party
	parked *vh.Async
}

func runC13(c *Ctx, d c13Desc) {
	if d.Special != "" {
		runC13Overflow(c, d)
		return
	}
	var extFiles []string
	exts := make([]*c13Ext, len(d.Kinds))
	for i, k := range d.Kinds {
		e := &c13Ext{kind: k}
		if k == "ext" {
			e.name = fmt.Sprintf("ext%d", i)
			e.state = "Started"
			extFiles = append(extFiles, e.name)
		} else {
			e.name = fmt.Sprintf("internal%d", i)
			e.state = "Absent"
		}
		exts[i] = e
	}
	w, err := NewWorld(vh.Config{TimeoutMs: 20000, Extensions: extFiles, FunctionName: "fn-c13", FunctionVersion: "7", Handler: "h.handler", AccountID: "123456789012", Snapshot: d.Snapshot})
	if err != nil {
		c.Inconclusive("harness: " + err.Error())
		return
	}
	defer w.Close()
	pup := func(*vh.Proc) vh.ExecPlan { return vh.ExecPlan{Behave: vh.Puppet{ExitOnTerm: true}.Run} }
	w.RtPlan = func(gen int, p *vh.Proc) vh.ExecPlan { return pup(p) }
	w.ExtPlan = func(base string, gen int, p *vh.Proc) vh.ExecPlan { return pup(p) }
	w.E.Init()
	for _, e := range exts {
		if e.kind == "ext" {
			p := w.E.WaitExt(e.name, 1, 5*time.Second)
			if p == nil {
				c.Inconclusive("harness: extension not started")
				return
			}
			e.pt = w.Party(p)
			e.pt2 = vh.NewParty(e.pt.Src+"#2", w.E.Addr, w.E.Log, p.Ctx)
		}
	}
	var rtp *vh.Proc
	getRt := func() *vh.Proc {
		if rtp != nil {
			return rtp
		}
		// started once every external extension has registered
		all := true
		for _, e := range exts {
			if e.kind == "ext" && e.state == "Started" {
				all = false
			}
		}
		if !all {
			return nil
		}
		rtp = w.E.WaitRuntime(1, 5*time.Second)
		return rtp
	}
	count := func() int {
		n := 0
		for _, e := range exts {
			if e.state != "Absent" {
				n++
			}
		}
		return n
	}
	trace := []string{}
	for step, op := range d.Ops {
		e := exts[op.Ext]
		if e.kind == "int" {
			if p := getRt(); p == nil {
				continue // the runtime (host of internal extensions) does not exist yet
			} else if e.pt == nil {
				e.pt = vh.NewParty(fmt.Sprintf("ext:internal-%d", op.Ext), w.E.Addr, w.E.Log, p.Ctx)
				e.pt2 = vh.NewParty(fmt.Sprintf("ext:internal-%d#2", op.Ext), w.E.Addr, w.E.Log, p.Ctx)
			}
		}
		conn := e.pt
		if e.parked != nil {
			conn = e.pt2
		}
		trace = append(trace, fmt.Sprintf("%d:%s:%s", op.Ext, op.Op, op.Arg))
		var got *vh.Resp
		wantSt, wantEt := 0, ""
		alt202 := false
		idOf := func() string {
			if e.id != "" {
				return e.id
			}
			return "6ba7b810-9dad-11d1-80b4-00c04fd430c8" // never handed out
		}
		switch op.Op {
		case "register":
			name := e.name
			switch op.Name {
			case "<empty>":
				name = ""
			case "<ext0>":
				name = exts[0].name
			case "<int-dup>":
				for _, o := range exts {
					if o.kind == "int" && o != e {
						name = o.name
					}
				}
			case "<long>":
				name = strings.Repeat("n", 8000)
			case "":
			default:
				name = op.Name
			}
			body := c13EventVariants[op.Arg]
			events, valid, reason := c13EventsOf(op.Arg)
			// ---- reference model of registration ----
			target := e
			var tracked *c13Ext
			for _, o := range exts {
				if o.name == name {
					tracked = o
				}
			}
			if tracked != nil {
				target = tracked
			} else if name != e.name {
				// registering under a fresh name: behaves as a new internal extension (not tracked further)
				target = &c13Ext{kind: "int", name: name, state: "Absent"}
			}
			switch {
			case name == "":
				wantSt, wantEt = 403, "Extension.InvalidExtensionName"
			case !valid && reason == "InvalidRequestFormat":
				wantSt, wantEt = 403, "InvalidRequestFormat"
			case !valid:
				wantSt, wantEt = 403, reason
			case target.kind == "int" && contains(events, "SHUTDOWN"):
				wantSt, wantEt = 403, "Extension.InvalidEventType"
			case target.kind == "ext" && target.state != "Started":
				wantSt, wantEt = 403, "Extension.InvalidExtensionState"
			case target.kind == "int" && target.state != "Absent":
				wantSt, wantEt = 403, "Extension.InvalidExtensionState"
			case target.kind == "int" && count() >= 10:
				wantSt, wantEt = 403, "Extension.TooManyExtensions"
			default:
				wantSt = 200
			}
			got = conn.RegisterRaw(name, []byte(body), op.Feat)
			if got.Status == 200 && wantSt == 200 {
				target.state, target.events = "Registered", events
				target.id = got.Header.Get("Lambda-Extension-Identifier")
				if tracked == nil && target != e {
					// a new internal extension came into existence under a fresh name: track it from now on
					exts = append(exts, target)
				}
				if target == e {
					e.pt.ExtID = target.id
				}
				// registration data equals what the platform was initialised with
				var reg map[string]interface{}
				json.Unmarshal(got.Body, &reg)
				wantAcc := false
				for _, f := range strings.Split(op.Feat, ",") {
					if strings.TrimSpace(f) == "accountId" {
						wantAcc = true
					}
				}
				okData := reg["functionName"] == "fn-c13" && reg["functionVersion"] == "7" && reg["handler"] == "h.handler"
				_, hasAcc := reg["accountId"]
				c.Check(okData, "registration_data", "C13/registration-data", "registration response does not carry the initialised function name / version / handler", string(got.Body))
				c.Check(hasAcc == wantAcc && (!wantAcc || reg["accountId"] == "123456789012"), "account_id_on_request_only", fmt.Sprintf("C13/account-id/%v-%v", hasAcc, wantAcc), "accountId present/absent contrary to the feature header", []string{op.Feat, string(got.Body)})
				c.Check(target.id != "", "identifier_returned", "C13/no-identifier", "no Lambda-Extension-Identifier on a successful registration", nil)
			}
		case "next":
			switch e.state {
			case "Registered":
				// parks until init completes and an event is available
				a := vh.Go(func() *vh.Resp { return conn.ExtNextID(e.id) })
				name := e.name
				ret, _ := vh.Settle(a, func() bool { return w.E.ExtState(name) == "Ready" }, 3*time.Second)
				if ret {
					c.Check(false, "next_parks", fmt.Sprintf("C13/next-did-not-park/%d-%s", a.R.Status, a.R.Etype), "the first next of a registered extension returned instead of waiting", strings.Join(trace, " "))
					return
				}
				c.Clause("next_parks")
				e.parked, e.state = a, "Ready"
				continue
			case "Absent", "Started":
				wantSt, wantEt = 403, "Extension.UnknownExtensionIdentifier"
			default:
				wantSt, wantEt = 403, "Extension.InvalidExtensionState"
			}
			got = conn.ExtNextID(idOf())
		case "initerr", "exiterr":
			switch {
			case e.state == "Absent" || e.state == "Started":
				wantSt, wantEt = 403, "Extension.UnknownExtensionIdentifier"
			case op.Op == "initerr" && e.state == "Registered":
				wantSt = 202
			case op.Op == "initerr" && e.state == "InitError":
				wantSt, wantEt, alt202 = 403, "Extension.InvalidExtensionState", true // a repeated report in the final state may be acknowledged again
			case op.Op == "exiterr" && (e.state == "Registered" || e.state == "Ready"):
				wantSt = 202
			case op.Op == "exiterr" && e.state == "ExitError":
				wantSt, wantEt, alt202 = 403, "Extension.InvalidExtensionState", true
			default:
				wantSt, wantEt = 403, "Extension.InvalidExtensionState"
			}
			if op.Op == "initerr" {
				got = conn.ExtInitError(idOf(), "Extension.TestInit")
			} else {
				got = conn.ExtExitError(idOf(), "Extension.TestExit")
			}
			if got.Status == 202 && wantSt == 202 {
				if op.Op == "initerr" {
					e.state = "InitError"
				} else {
					e.state = "ExitError"
				}
			}
		case "noerrtype":
			if e.id == "" {
				wantSt, wantEt = 403, "Extension.MissingHeader"
			} else {
				wantSt, wantEt = 403, "Extension.MissingHeader"
			}
			got = conn.ExtInitError(idOf(), "")
		case "noerrtype-exit":
			// an exit error report without the mandatory error type: refused whatever the state - and no state change
			wantSt, wantEt = 403, "Extension.MissingHeader"
			got = conn.ExtExitError(idOf(), "")
		case "id-missing":
			wantSt, wantEt = 403, "Extension.MissingExtensionIdentifier"
			got = conn.ExtNextID("")
		case "id-invalid":
			wantSt, wantEt = 403, "Extension.InvalidExtensionIdentifier"
			got = conn.ExtNextID("not-a-uuid")
		case "id-unknown":
			wantSt, wantEt = 403, "Extension.UnknownExtensionIdentifier"
			got = conn.ExtExitError("6ba7b811-9dad-11d1-80b4-00c04fd430c8", "Extension.X")
		case "id-other":
			// another extension's identifier: the call acts on THAT extension; only issue it when harmless (illegal there)
			var other *c13Ext
			for _, o := range exts {
				if o != e && o.id != "" && (o.state == "Ready") {
					other = o
				}
			}
			if other == nil {
				continue
			}
			wantSt, wantEt = 403, "Extension.InvalidExtensionState"
			got = conn.ExtInitError(other.id, "Extension.Hijack") // init/error is illegal once the extension asked for next
		}
		if got == nil {
			continue
		}
		ok := got.Status == wantSt && (wantEt == "" || got.Etype == wantEt)
		if alt202 && got.Status == 202 {
			ok = true
		}
		sig := fmt.Sprintf("C13/answer/%s(%s)-in-%s-%s/got-%d-%s/want-%d-%s", op.Op, op.Arg+op.Name, e.kind, e.state, got.Status, got.Etype, wantSt, wantEt)
		if !c.Check(ok, "answer_"+classify13(wantSt), sig, fmt.Sprintf("step %d %v on %s extension in model state %s answered %d %s, reference says %d %s; ops so far: %s", step, op, e.kind, e.state, got.Status, got.Etype, wantSt, wantEt, strings.Join(trace, " ")), nil) {
			c.SetSample(sampleLog(w, 100))
			return
		}
		c.State(e.kind + ":" + e.state)
	}

	// ---- refused calls left no trace: the model's view must match the emulator's own snapshot ----
	snap := map[string]string{}
	for _, x := range w.E.State().Extensions {
		snap[x.Name] = x.State.Name
	}
	for _, e := range exts {
		got, present := snap[e.name]
		switch e.state {
		case "Absent":
			c.Check(!present, "state_matches_model", "C13/state/absent-but-present", "an extension whose registrations were all refused exists in the platform state", e.name)
		default:
			c.Check(present && got == e.state, "state_matches_model", fmt.Sprintf("C13/state/%s-vs-%s", got, e.state), fmt.Sprintf("platform state of %s is %q, model says %q", e.name, got, e.state), strings.Join(trace, " "))
		}
	}

	// ---- barrier counts unchanged by refused calls: init completes with exactly the model's parties ----
	for _, e := range exts {
		if e.state == "InitError" || e.state == "ExitError" || e.state == "Started" {
			c.SetTrace(strings.Join(trace, " "), true)
			return // init cannot complete by design (an extension reported an error / never registered)
		}
	}
	if getRt() == nil {
		c.SetTrace(strings.Join(trace, " "), true)
		return
	}
	rt := w.Party(rtp)
	for i, e := range exts {
		if e.state == "Registered" {
			if e.pt == nil {
				e.pt = vh.NewParty(fmt.Sprintf("ext:internal-%d", i), w.E.Addr, w.E.Log, rtp.Ctx)
			}
			e2 := e
			a := vh.Go(func() *vh.Resp { return e2.pt.ExtNextID(e2.id) })
			name := e.name
			vh.Settle(a, func() bool { return w.E.ExtState(name) == "Ready" }, 3*time.Second)
			e.parked, e.state = a, "Ready"
		}
	}
	rtNext := vh.Go(func() *vh.Resp { return rt.Next() })
	vh.Settle(rtNext, func() bool { return w.E.RuntimeState() == "Ready" }, 3*time.Second)
	inv := w.E.InvokeAsync([]byte("final-event"), vh.InvokeOpts{})
	ev := rtNext.Wait(5 * time.Second)
	if !c.Check(ev != nil && ev.Status == 200, "init_completes_with_model_parties", "C13/init-stuck", "init did not complete with exactly the parties the model knows (a refused call changed a barrier count?)", strings.Join(trace, " ")) {
		c.SetSample(sampleLog(w, 120))
		return
	}
	// registration is closed once the first invocation has been delivered
	late := vh.NewParty("ext:internal-late", w.E.Addr, w.E.Log, rtp.Ctx)
	lr := late.Register("late-one", []string{"INVOKE"}, "")
	c.Check(lr.Status == 403 && lr.Etype == "Extension.RegistrationClosed", "registration_closes", fmt.Sprintf("C13/late-register/%d-%s", lr.Status, lr.Etype), "registration after the first delivery was not refused with RegistrationClosed", nil)
	for _, e := range exts {
		if e.parked == nil {
			continue
		}
		if contains(e.events, "INVOKE") {
			r := e.parked.Wait(3 * time.Second)
			c.Check(r != nil && r.Status == 200 && parseExtEvent(r.Body).EventType == "INVOKE", "subscriptions_as_registered", "C13/subscriber-not-served", "an INVOKE subscriber (per accepted registration) got no event", e.name)
		} else {
			time.Sleep(3 * time.Millisecond)
			c.Check(!e.parked.Done(), "subscriptions_as_registered", "C13/non-subscriber-served", "an extension without an accepted INVOKE subscription got an event (partial subscription kept after a refused register?)", e.name)
		}
	}
	// ---- variant: an INVOKE subscriber reports an exit error while it is RUNNING (it holds the event, has not asked for next) ----
	if len(d.Ops)%3 == 2 {
		var run []*c13Ext
		for _, e := range exts {
			if e.parked != nil && contains(e.events, "INVOKE") && e.parked.Done() {
				run = append(run, e)
			}
		}
		if len(run) > 0 {
			e := run[len(trace)%len(run)]
			name := e.name
			stateOf := func() string {
				for _, x := range w.E.State().Extensions {
					if x.Name == name {
						return x.State.Name
					}
				}
				return "?"
			}
			if r := e.pt.ExtExitError(e.id, "Extension.WhileRunning"); c.Check(r.Status == 202, "exit_error_any_time", fmt.Sprintf("C13/running-exit-error/%s/%d-%s", e.kind, r.Status, r.Etype), "exit error report of a running extension was refused", nil) {
				c.Check(stateOf() == "ExitError", "state_matches_model", fmt.Sprintf("C13/state/%s-vs-ExitError/%s-running", stateOf(), e.kind), "an accepted exit error report of a running "+e.kind+" extension did not put it into ExitError", name)
				r2 := e.pt.ExtInitError(e.id, "Extension.TooLate")
				c.Check(r2.Status == 403 && r2.Etype == "Extension.InvalidExtensionState", "exit_error_final", fmt.Sprintf("C13/exit-error-not-final/%s/initerr-%d-%s", e.kind, r2.Status, r2.Etype), "an init error report after an accepted exit error report was not refused", name)
				r3 := e.pt.ExtNextID(e.id)
				c.Check(r3.Status == 403 && r3.Etype == "Extension.InvalidExtensionState", "exit_error_final", fmt.Sprintf("C13/exit-error-not-final/%s/next-%d-%s", e.kind, r3.Status, r3.Etype), "next after an accepted exit error report was not refused", name)
				c.Check(stateOf() == "ExitError", "exit_error_final", fmt.Sprintf("C13/exit-error-not-final/%s/state2-%s", e.kind, stateOf()), "ExitError state was left by refused calls", name)
			}
			c.SetTrace(strings.Join(trace, " ")+" running-exiterr", true)
			if c.WantSample || c.Violated() {
				c.SetSample(sampleLog(w, 100))
			}
			return
		}
	}
	rt.Respond(ev.ReqID(), []byte("done"), nil)
	vh.Go(func() *vh.Resp { return rt.Next() })
	var again []*c13Ext
	for _, e := range exts {
		if e.parked != nil && contains(e.events, "INVOKE") {
			e2 := e
			e.parked = vh.Go(func() *vh.Resp { return e2.pt.ExtNextID(e2.id) })
			again = append(again, e)
		}
	}
	done := c.Check(inv.Wait(5*time.Second) && inv.Err == nil, "invocation_completes", "C13/invocation-stuck", "the invocation did not complete with the model's set of INVOKE subscribers", vh.ErrName(inv.Err))

	// ---- an exit error reported while a LATER next is parked is final too ----
	if done && len(again) > 0 {
		e := again[len(d.Ops)%len(again)]
		name := e.name
		vh.Settle(e.parked, func() bool { return w.E.ExtState(name) == "Ready" }, 3*time.Second)
		if e.pt2 == nil {
			e.pt2 = vh.NewParty(e.pt.Src+"#2", w.E.Addr, w.E.Log, rtp.Ctx)
		}
		stateOf := func() string {
			for _, x := range w.E.State().Extensions {
				if x.Name == name {
					return x.State.Name
				}
			}
			return "?"
		}
		if r := e.pt2.ExtExitError(e.id, "Extension.LateExit"); c.Check(r.Status == 202, "exit_error_any_time", fmt.Sprintf("C13/late-exit-error/%s/%d-%s", e.kind, r.Status, r.Etype), "exit error report of an extension parked in a later next was refused", nil) {
			c.Check(stateOf() == "ExitError", "state_matches_model", "C13/state/"+stateOf()+"-vs-ExitError", "accepted exit error report did not put the extension into ExitError", name)
			inv2 := w.E.InvokeAsync([]byte("second-event"), vh.InvokeOpts{})
			_ = inv2
			// the parked next may stay parked or be refused; it must not be served
			pr := e.parked.Wait(400 * time.Millisecond)
			c.Check(pr == nil || pr.Status != 200, "exit_error_final", fmt.Sprintf("C13/exit-error-not-final/%s/parked-next-served", e.kind), "a next parked across an accepted exit error report was served an event afterwards", name)
			if pr != nil {
				c.Counter("parked_next_after_exit_error_"+fmt.Sprint(pr.Status), 1)
			} else {
				c.Counter("parked_next_after_exit_error_stays_parked", 1)
			}
			c.Check(stateOf() == "ExitError", "exit_error_final", fmt.Sprintf("C13/exit-error-not-final/%s/state-%s", e.kind, stateOf()), "ExitError state was left after a later platform release", name)
			if pr != nil {
				r2 := e.pt2.ExtNextID(e.id)
				c.Check(r2.Status == 403 && r2.Etype == "Extension.InvalidExtensionState", "exit_error_final", fmt.Sprintf("C13/exit-error-not-final/%s/next-%d-%s", e.kind, r2.Status, r2.Etype), "next after an accepted exit error report was not refused", name)
				r3 := e.pt2.ExtExitError(e.id, "Extension.Again")
				c.Check(r3.Status == 403 || r3.Status == 202, "exit_error_final", fmt.Sprintf("C13/exit-error-not-final/%s/again-%d", e.kind, r3.Status), "repeated exit error report answered unexpectedly", name)
				c.Check(stateOf() == "ExitError", "exit_error_final", fmt.Sprintf("C13/exit-error-not-final/%s/state2-%s", e.kind, stateOf()), "ExitError state was left by refused calls", name)
			}
		}
	}
	// ---- identifiers do not survive a reset: every call with a pre-reset identifier is "unknown" ----
	{
		rdone := make(chan struct{})
		go func() { w.E.Srv.Reset("explicit", 1500); close(rdone) }()
		select {
		case <-rdone:
		case <-time.After(10 * time.Second):
			c.Inconclusive("reset did not return")
			return
		}
		stale := vh.NewParty("ext:stale-after-reset", w.E.Addr, w.E.Log, context.Background())
		defer stale.Close()
		for _, e := range exts {
			if e.id == "" {
				continue
			}
			for _, call := range []struct {
				op string
				f  func() *vh.Resp
			}{
				{"initerr", func() *vh.Resp { return stale.ExtInitError(e.id, "Extension.Stale") }},
				{"exiterr", func() *vh.Resp { return stale.ExtExitError(e.id, "Extension.Stale") }},
			} {
				r := call.f()
				c.Check(r.Status == 403 && r.Etype == "Extension.UnknownExtensionIdentifier", "identifier_dies_with_reset", fmt.Sprintf("C13/stale-identifier/%s/%s/%d-%s", e.kind, call.op, r.Status, r.Etype), fmt.Sprintf("%s with the identifier a %s extension got before the reset answered %d %s", call.op, e.kind, r.Status, r.Etype), e.name)
			}
			// next with a stale identifier: refused; it must not park as if the extension existed
			a := vh.Go(func() *vh.Resp { return stale.ExtNextID(e.id) })
			r := a.Wait(500 * time.Millisecond)
			if c.Check(r != nil, "identifier_dies_with_reset", "C13/stale-identifier/"+e.kind+"/next-parks", "next with a pre-reset identifier was not answered (parked as if the extension were registered)", e.name) {
				c.Check(r.Status == 403 && r.Etype == "Extension.UnknownExtensionIdentifier", "identifier_dies_with_reset", fmt.Sprintf("C13/stale-identifier/%s/next/%d-%s", e.kind, r.Status, r.Etype), "next with a pre-reset identifier was not refused as unknown", e.name)
			}
		}
		st := w.E.State()
		c.Check(len(st.Extensions) == 0 && st.FirstFatalError == "", "stale_calls_leave_no_trace", "C13/stale-identifier/state", "calls with pre-reset identifiers left extensions or a fatal error in the platform state", fmt.Sprintf("ext=%d ffe=%q", len(st.Extensions), st.FirstFatalError))
	}
	c.SetTrace(strings.Join(trace, " "), true)
	if c.WantSample || c.Violated() {
		c.SetSample(sampleLog(w, 100))
	}
}

func classify13(st int) string {
	switch st {
	case 200, 202:
		return "accepted"
	case 403:
		return "refused"
	}
	return fmt.Sprint(st)
}

func runC13Overflow(c *Ctx, d c13Desc) {
	if d.Special == "overflow-external" {
		var files []string
		for i := 0; i < 11; i++ {
			files = append(files, fmt.Sprintf("e%02d", i))
		}
		w, err := NewWorld(vh.Config{TimeoutMs: 3000, Extensions: files})
		if err != nil {
			c.Inconclusive("harness: " + err.Error())
			return
		}
		defer w.Close()
		w.E.Init()
		inv := w.E.InvokeAsync([]byte("x"), vh.InvokeOpts{})
		if !inv.Wait(12 * time.Second) {
			c.Check(false, "overflow_external_fails", "C13/overflow-external-hang", "eleven external extensions: the invocation never returned", nil)
			return
		}
		st := vh.ErrName(inv.Err)
		c.Check(st == "initfail" || st == "invokefail", "overflow_external_fails", "C13/overflow-external/"+st, "eleven external extension files: the invoker did not get a failure status", st)
		n := 0
		for _, p := range w.E.Sup.Procs() {
			if p.Role == "ext" && p.Gen == 1 {
				n++
			}
		}
		c.Check(n <= 10, "at_most_ten_launched", fmt.Sprintf("C13/overflow-launched-%d", n), "more than ten external extensions were launched", n)
		c.SetTrace("overflow-external", true)
		return
	}
	// eleventh internal registration
	w, err := NewWorld(vh.Config{TimeoutMs: 20000, Extensions: []string{"e0"}})
	if err != nil {
		c.Inconclusive("harness: " + err.Error())
		return
	}
	defer w.Close()
	pup := func(*vh.Proc) vh.ExecPlan { return vh.ExecPlan{Behave: vh.Puppet{ExitOnTerm: true}.Run} }
	w.RtPlan = func(gen int, p *vh.Proc) vh.ExecPlan { return pup(p) }
	w.ExtPlan = func(base string, gen int, p *vh.Proc) vh.ExecPlan { return pup(p) }
	w.E.Init()
	ep := w.E.WaitExt("e0", 1, 5*time.Second)
	if ep == nil {
		c.Inconclusive("harness")
		return
	}
	w.Party(ep).Register("e0", []string{"INVOKE"}, "")
	rtp := w.E.WaitRuntime(1, 5*time.Second)
	if rtp == nil {
		c.Inconclusive("harness")
		return
	}
	for i := 0; i < 11; i++ {
		pt := vh.NewParty(fmt.Sprintf("ext:internal-%d", i), w.E.Addr, w.E.Log, rtp.Ctx)
		r := pt.Register(fmt.Sprintf("in%02d", i), []string{"INVOKE"}, "")
		if i < 9 {
			c.Check(r.Status == 200, "below_limit_accepted", fmt.Sprintf("C13/limit/refused-at-%d", i+2), fmt.Sprintf("registration %d of 10 allowed was refused", i+2), r.Etype)
		} else {
			c.Check(r.Status == 403 && r.Etype == "Extension.TooManyExtensions", "limit_is_ten", fmt.Sprintf("C13/limit/%d-at-%d", r.Status, i+2), fmt.Sprintf("extension number %d was answered %d %s", i+2, r.Status, r.Etype), nil)
		}
	}
	c.Check(len(w.E.State().Extensions) == 10, "limit_is_ten", "C13/limit/state-count", "platform state does not show exactly ten extensions", len(w.E.State().Extensions))
	c.SetTrace("overflow-internal", true)
}
