package main

import (
	"bytes"
	"context"
	"errors"
	"fmt"
	"io"
	"math/rand"
	"net"
	"net/http"
	"net/http/httptest"
	"strconv"
	"strings"
	"sync"
	"sync/atomic"
	"time"

	"github.com/go-chi/chi"

	"go.amzn.com/lambda/core/directinvoke"
	"go.amzn.com/lambda/interop"
	"go.amzn.com/lambda/verifhook"
	"go.amzn.com/verifharness/vh"
)

// C17 — direct-invoke streaming path: stateless parsing, faithful copy, rate bound.
// The settings of the direct path are package-level variables, so every case
// of this check runs the requests sequentially in its own process slot.

func init() { register("C17", genC17) }

type c17Desc struct {
	Kind string `json:"kind"` // history | copy | reset | rate | wakeup
	N    int    `json:"n"`
	Salt string `json:"salt"`
}

func genC17(tier string, seed int64) []Case {
	var cases []Case
	add := func(d c17Desc) {
		cases = append(cases, Case{ID: fmt.Sprintf("C17/%s/%s", d.Kind, d.Salt), Class: d.Kind, Desc: d, Timeout: 600 * time.Second, Run: func(c *Ctx) { runC17(c, d) }})
	}
	nb, per := 8, 300
	if tier == "thorough" {
		nb, per = 96, 1500
	}
	add(c17Desc{Kind: "history", N: 0, Salt: "enumerated"})
	for i := 0; i < nb; i++ {
		add(c17Desc{Kind: "history", N: per, Salt: fmt.Sprintf("rand%d-%d", seed, i)})
	}
	add(c17Desc{Kind: "copy", N: 0, Salt: "enumerated"})
	add(c17Desc{Kind: "reset", N: 0, Salt: "enumerated"})
	add(c17Desc{Kind: "wakeup", N: 0, Salt: "enumerated"})
	add(c17Desc{Kind: "server", N: 0, Salt: "enumerated"})
	nr := 6
	if tier == "thorough" {
		nr = 120
	}
	for i := 0; i < nr; i++ {
		add(c17Desc{Kind: "rate", N: 2, Salt: fmt.Sprintf("%d-%d", seed, i)})
	}
	return cases
}

func runC17(c *Ctx, d c17Desc) {
	switch d.Kind {
	case "history":
		runC17History(c, d)
	case "copy":
		runC17Copy(c, d)
	case "reset":
		runC17Reset(c, d)
	case "rate":
		runC17Rate(c, d)
	case "wakeup":
		runC17Wakeup(c, d)
	case "server":
		runC17Server(c, d)
	}
}

// ---- (a) history independence ----

type diReq struct {
	MaxPayload, Mode, Rate, Burst string // "" = header absent
	BadToken                      string // "", id, rtoken, version, expired, custhdr
	Cust                          string // customer headers: "" = header absent, "full", "cid" (identity id only), "ctx" (client context only)
}

// custOf: the customer header fields a request of this shape carries (a function of the current request only).
func custOf(kind string) directinvoke.CustomerHeaders {
	switch kind {
	case "full":
		return directinvoke.CustomerHeaders{CognitoIdentityID: "id-full", CognitoIdentityPoolID: "pool-full", ClientContext: "ctx-full"}
	case "cid":
		return directinvoke.CustomerHeaders{CognitoIdentityID: "id-only"}
	case "ctx":
		return directinvoke.CustomerHeaders{ClientContext: "ctx-only"}
	}
	return directinvoke.CustomerHeaders{}
}

type diExpect struct {
	Err      string
	Mode     interop.InvokeResponseMode
	Max      int64
	Rate     int64
	Burst    int64
	Stream   bool
	Trailers []string
}

// specParse is the pure reference: a function of the current request only.
func specParse(q diReq) diExpect {
	e := diExpect{Mode: interop.InvokeResponseModeBuffered, Max: interop.MaxPayloadSize, Rate: interop.ResponseBandwidthRate, Burst: interop.ResponseBandwidthBurstSize}
	if q.BadToken == "custhdr" {
		e.Err = "ErrMalformedCustomerHeaders"
		return e
	}
	if q.MaxPayload != "" {
		n, err := strconv.ParseInt(q.MaxPayload, 10, 64)
		if err != nil || n < -1 {
			e.Err = "ErrInvalidMaxPayloadSize"
			return e
		}
		e.Max = n
	}
	if q.Mode != "" {
		switch strings.ToLower(q.Mode) {
		case "buffered":
			e.Mode = interop.InvokeResponseModeBuffered
		case "streaming":
			e.Mode = interop.InvokeResponseModeStreaming
		default:
			e.Err = "ErrInvalidInvokeResponseMode"
			return e
		}
	}
	e.Trailers = []string{"End-Of-Response"}
	if e.Max == -1 || e.Mode == interop.InvokeResponseModeStreaming {
		e.Stream = true
		e.Mode = interop.InvokeResponseModeStreaming
		e.Trailers = append(e.Trailers, "Lambda-Runtime-Function-Error-Type", "Lambda-Runtime-Function-Error-Body")
		if q.Rate != "" {
			n, err := strconv.ParseInt(q.Rate, 10, 64)
			if err != nil || n < interop.MinResponseBandwidthRate || n > interop.MaxResponseBandwidthRate {
				e.Err = "ErrInvalidResponseBandwidthRate"
				return e
			}
			e.Rate = n
		}
		if q.Burst != "" {
			n, err := strconv.ParseInt(q.Burst, 10, 64)
			if err != nil || n < interop.MinResponseBandwidthBurstSize || n > interop.MaxResponseBandwidthBurstSize {
				e.Err = "ErrInvalidResponseBandwidthBurstSize"
				return e
			}
			e.Burst = n
		}
	}
	switch q.BadToken {
	case "id":
		e.Err = "ErrInvalidInvokeID"
	case "rtoken":
		e.Err = "ErrInvalidReservationToken"
	case "version":
		e.Err = "ErrInvalidFunctionVersion"
	case "expired":
		e.Err = "ErrReservationExpired"
	}
	return e
}

func doReceive(q diReq) (*interop.Invoke, error, *httptest.ResponseRecorder) {
	tok := interop.Token{ReservationToken: "rt-1", InvokeID: "inv-1", VersionID: "v1", FunctionTimeout: 3 * time.Second, InvackDeadlineNs: 1 << 62, TraceID: "trace-x"}
	if q.BadToken == "expired" {
		tok.InvackDeadlineNs = 1
	}
	r := httptest.NewRequest("POST", "/invoke/rt-1", bytes.NewReader([]byte("payload")))
	rt := "rt-1"
	if q.BadToken == "rtoken" {
		rt = "other"
	}
	rctx := chi.NewRouteContext()
	rctx.URLParams.Add("reservationtoken", rt)
	r = r.WithContext(context.WithValue(r.Context(), chi.RouteCtxKey, rctx))
	id := "inv-1"
	if q.BadToken == "id" {
		id = "inv-2"
	}
	ver := "v1"
	if q.BadToken == "version" {
		ver = "v2"
	}
	r.Header.Set(directinvoke.InvokeIDHeader, id)
	r.Header.Set(directinvoke.VersionIDHeader, ver)
	if q.BadToken == "custhdr" {
		r.Header.Set(directinvoke.CustomerHeadersHeader, "!!!not-base64-json")
	} else if q.Cust != "" {
		r.Header.Set(directinvoke.CustomerHeadersHeader, custOf(q.Cust).Dump())
	}
	set := func(h, v string) {
		if v != "" {
			r.Header.Set(h, v)
		}
	}
	set(directinvoke.MaxPayloadSizeHeader, q.MaxPayload)
	set(directinvoke.InvokeResponseModeHeader, q.Mode)
	set(directinvoke.ResponseBandwidthRateHeader, q.Rate)
	set(directinvoke.ResponseBandwidthBurstSizeHeader, q.Burst)
	w := httptest.NewRecorder()
	inv, err := directinvoke.ReceiveDirectInvoke(w, r, tok)
	return inv, err, w
}

func checkReceive(c *Ctx, q diReq, hist []diReq) bool {
	want := specParse(q)
	inv, err, w := doReceive(q)
	gotErr := ""
	if err != nil {
		gotErr = err.Error()
	}
	desc := fmt.Sprintf("%+v after %d earlier requests %+v", q, len(hist), hist)
	if !c.Check(gotErr == want.Err, "parse_error_class", fmt.Sprintf("C17/parse/error/%s-vs-%s", gotErr, want.Err), "request answered with "+gotErr+", a stateless parser says "+want.Err+": "+desc, nil) {
		return false
	}
	if want.Err != "" {
		c.Check(w.Code == 400 && w.Header().Get("Error-Type") == want.Err, "parse_error_rendered", "C17/parse/error-rendering", "refused request not rendered as 400 with Error-Type", []string{fmt.Sprint(w.Code), w.Header().Get("Error-Type")})
		return true
	}
	ok := c.Check(inv.InvokeResponseMode == want.Mode, "mode_stateless", fmt.Sprintf("C17/parse/sticky-mode/%s-vs-%s", inv.InvokeResponseMode, want.Mode), fmt.Sprintf("parsed InvokeResponseMode %q, a stateless parser says %q: %s", inv.InvokeResponseMode, want.Mode, desc), nil)
	ok = c.Check(directinvoke.InvokeResponseMode == want.Mode && directinvoke.MaxDirectResponseSize == want.Max, "settings_stateless", "C17/parse/sticky-settings", fmt.Sprintf("package settings mode=%s max=%d, expected %s/%d: %s", directinvoke.InvokeResponseMode, directinvoke.MaxDirectResponseSize, want.Mode, want.Max, desc), nil) && ok
	if want.Stream {
		ok = c.Check(directinvoke.ResponseBandwidthRate == want.Rate && directinvoke.ResponseBandwidthBurstSize == want.Burst, "bandwidth_stateless", "C17/parse/sticky-bandwidth", fmt.Sprintf("rate=%d burst=%d, expected %d/%d: %s", directinvoke.ResponseBandwidthRate, directinvoke.ResponseBandwidthBurstSize, want.Rate, want.Burst, desc), nil) && ok
	}
	gotTr := w.Header().Values("Trailer")
	ok = c.Check(strings.Join(gotTr, ",") == strings.Join(want.Trailers, ","), "trailers_declared", "C17/parse/trailer-declaration", fmt.Sprintf("declared trailers %v, expected %v: %s", gotTr, want.Trailers, desc), nil) && ok
	wc := custOf(q.Cust)
	ok = c.Check(inv.CognitoIdentityID == wc.CognitoIdentityID && inv.CognitoIdentityPoolID == wc.CognitoIdentityPoolID && inv.ClientContext == wc.ClientContext, "customer_headers_stateless", "C17/parse/sticky-customer-headers", fmt.Sprintf("parsed customer fields (%q, %q, %q), the request carries (%q, %q, %q): %s", inv.CognitoIdentityID, inv.CognitoIdentityPoolID, inv.ClientContext, wc.CognitoIdentityID, wc.CognitoIdentityPoolID, wc.ClientContext, desc), nil) && ok
	ok = c.Check(inv.ID == "inv-1" && inv.ReservationToken == "rt-1" && inv.TraceID == "trace-x" && w.Header().Get(directinvoke.InvokeIDHeader) == "inv-1", "token_fields", "C17/parse/token-fields", "parsed record / echoed headers do not match the reservation token", nil) && ok
	return ok
}

var diValues = map[string][]string{
	"max":   {"", "", "0", "1", "1000", "-1", "6291556", "-2", "abc", "9223372036854775807"},
	"mode":  {"", "", "Buffered", "Streaming", "streaming", "BUFFERED", "bogus"},
	"rate":  {"", "", "32768", "67108864", "32767", "67108865", "x", "2097152"},
	"burst": {"", "", "32768", "67108864", "32767", "67108865", "-1", "6291456"},
	"bad":   {"", "", "", "", "", "id", "rtoken", "version", "expired", "custhdr"},
	"cust":  {"", "", "", "full", "cid", "ctx"},
}

func randReq(r *rand.Rand) diReq {
	p := func(k string) string { v := diValues[k]; return v[r.Intn(len(v))] }
	return diReq{MaxPayload: p("max"), Mode: p("mode"), Rate: p("rate"), Burst: p("burst"), BadToken: p("bad"), Cust: p("cust")}
}

func runC17History(c *Ctx, d c17Desc) {
	n := 0
	if d.N == 0 {
		// every ordered pair of (interesting request, plain request) and the known sticky shapes
		interesting := []diReq{
			{Mode: "Streaming"}, {Mode: "streaming", Rate: "32768", Burst: "32768"}, {MaxPayload: "-1"}, {MaxPayload: "5"}, {Mode: "Buffered", MaxPayload: "0"},
			{MaxPayload: "-1", Rate: "67108864"}, {Mode: "bogus"}, {MaxPayload: "abc"}, {Mode: "Streaming", Rate: "1"}, {Mode: "Streaming", Burst: "1"}, {BadToken: "id", Mode: "Streaming"},
			{Cust: "full"}, {Cust: "cid", Mode: "Streaming"}, {Cust: "ctx"},
		}
		for _, a := range interesting {
			for _, b := range append([]diReq{{}}, interesting...) {
				for _, c3 := range []diReq{{}, {Mode: "Buffered"}} {
					hist := []diReq{}
					for _, q := range []diReq{a, b, c3} {
						if !checkReceive(c, q, hist) && c.Violated() {
							// keep going to collect distinct signatures, but not forever
						}
						hist = append(hist, q)
						n++
					}
				}
			}
		}
	} else {
		r := rng(c.Seed, d.Salt)
		for i := 0; i < d.N; i++ {
			hist := []diReq{}
			for k := 2 + r.Intn(5); k > 0; k-- {
				q := randReq(r)
				checkReceive(c, q, hist)
				hist = append(hist, q)
				n++
			}
		}
	}
	c.Counter("requests", n)
	c.SetTrace("history"+d.Salt, true)
	c.SetSample(map[string]interface{}{"requests": n, "example_sequence": []diReq{{Mode: "Streaming"}, {}}})
}

// ---- (b) faithful copy and classification ----

type recFlusher struct {
	mu     sync.Mutex
	hdr    http.Header
	chunks [][]byte
	times  []time.Time
	failAt int // fail the n-th write (1-based); 0 = never
	code   int
}

func (w *recFlusher) Header() http.Header {
	if w.hdr == nil {
		w.hdr = http.Header{}
	}
	return w.hdr
}
func (w *recFlusher) Write(b []byte) (int, error) {
	w.mu.Lock()
	defer w.mu.Unlock()
	if w.failAt > 0 && len(w.chunks)+1 == w.failAt {
		return 0, errors.New("injected write failure")
	}
	w.chunks = append(w.chunks, append([]byte{}, b...))
	w.times = append(w.times, time.Now())
	return len(b), nil
}
func (w *recFlusher) WriteHeader(code int) { w.code = code }
func (w *recFlusher) Flush()               {}
func (w *recFlusher) body() []byte {
	w.mu.Lock()
	defer w.mu.Unlock()
	return bytes.Join(w.chunks, nil)
}

type chunkReader struct {
	data   []byte
	chunk  int
	off    int
	failAt int // fail after this many bytes; -1 = never
	gate   chan struct{}
	gateAt int // block before delivering the byte at this offset until gate is closed; -1 = never
}

func (r *chunkReader) Read(p []byte) (int, error) {
	if r.gateAt >= 0 && r.off >= r.gateAt && r.gate != nil {
		<-r.gate
		r.gate = nil
	}
	if r.failAt >= 0 && r.off >= r.failAt {
		return 0, errors.New("injected read failure")
	}
	if r.off >= len(r.data) {
		return 0, io.EOF
	}
	n := r.chunk
	if n <= 0 || n > len(p) {
		n = len(p)
	}
	if r.off+n > len(r.data) {
		n = len(r.data) - r.off
	}
	if r.failAt >= 0 && r.off+n > r.failAt {
		n = r.failAt - r.off
	}
	if r.gateAt >= 0 && r.gate != nil && r.off+n > r.gateAt {
		n = r.gateAt - r.off
	}
	if n == 0 {
		return r.Read(p)
	}
	copy(p, r.data[r.off:r.off+n])
	r.off += n
	return n, nil
}

func sendDirect(w http.ResponseWriter, payload io.Reader, errorShape bool, resetCh chan *interop.Reset) (error, bool) {
	return sendDirectReq(w, payload, errorShape, resetCh, nil)
}

func sendDirectReq(w http.ResponseWriter, payload io.Reader, errorShape bool, resetCh chan *interop.Reset, request *interop.CancellableRequest) (error, bool) {
	metrics := make(chan *interop.InvokeResponseMetrics, 4)
	hdrs := map[string]string{"Content-Type": "application/octet-stream"}
	if errorShape {
		hdrs[directinvoke.ErrorTypeHeader] = "Function.Err"
	}
	done := make(chan error, 1)
	go func() {
		done <- directinvoke.SendDirectInvokeResponse(hdrs, payload, http.Header{}, w, resetCh, metrics, request, !errorShape, "inv-1")
	}()
	select {
	case err := <-done:
		return err, true
	case <-time.After(30 * time.Second):
		return nil, false
	}
}

func runC17Copy(c *Ctx, d c17Desc) {
	n := 0
	r := rng(c.Seed, "c17copy")
	limits := []int64{0, 1, 1000, 65536, -1}
	for _, M := range limits {
		for _, mode := range []string{"Buffered", "Streaming"} {
			if M == -1 && mode == "Buffered" {
				continue // -1 makes the invoke streaming by definition
			}
			var sizes []int
			if M >= 0 {
				for _, s := range []int64{0, 1, M - 1, M, M + 1, M + 4096} {
					if s >= 0 {
						sizes = append(sizes, int(s))
					}
				}
			} else {
				sizes = []int{0, 1, 70000}
			}
			for _, size := range sizes {
				for _, chunk := range []int{1, 7, 4096, 0} {
					if chunk == 1 && size > 5000 {
						continue
					}
					for _, errShape := range []bool{false, true} {
						if errShape && mode == "Buffered" {
							continue
						}
						if _, err, _ := doReceive(diReq{MaxPayload: fmt.Sprint(M), Mode: mode, Rate: "67108864", Burst: "67108864"}); err != nil {
							c.Inconclusive("setup request refused: " + err.Error())
							return
						}
						data := randBytes(r, size)
						w := &recFlusher{}
						err, finished := sendDirect(w, &chunkReader{data: data, chunk: chunk, failAt: -1, gateAt: -1}, errShape, make(chan *interop.Reset))
						n++
						label := fmt.Sprintf("M=%d mode=%s size=%d chunk=%d err=%v", M, mode, size, chunk, errShape)
						if !c.Check(finished, "copy_terminates", "C17/copy/hang", "copy did not terminate: "+label, nil) {
							return
						}
						got := w.body()
						over := M >= 0 && int64(size) > M
						wantLen := size
						if over {
							wantLen = int(M) + 1
						}
						c.Check(bytes.Equal(got, data[:wantLen]), "copy_faithful_prefix", "C17/copy/bytes/"+mode, fmt.Sprintf("forwarded %d bytes, expected the first %d of the payload unaltered: %s", len(got), wantLen, label), nil)
						tr := w.Header().Get(directinvoke.EndOfResponseTrailer)
						wantTr := directinvoke.EndOfResponseComplete
						if over {
							wantTr = directinvoke.EndOfResponseOversized
						}
						c.Check(tr == wantTr, "classification", fmt.Sprintf("C17/copy/classification/%s-vs-%s/%s", tr, wantTr, mode), fmt.Sprintf("End-Of-Response %q, expected %q: %s", tr, wantTr, label), nil)
						if over {
							var tl *interop.ErrorResponseTooLargeDI
							c.Check(errors.As(err, &tl), "oversized_error", "C17/copy/oversized-error", "oversized copy did not return the too-large error: "+label, fmt.Sprint(err))
						} else {
							c.Check(err == nil, "complete_no_error", "C17/copy/complete-error", "complete copy returned an error: "+label, fmt.Sprint(err))
						}
					}
				}
			}
		}
	}
	// injected faults: reader fails after k bytes, writer fails at the k-th write
	for _, mode := range []string{"Buffered", "Streaming"} {
		for _, k := range []int{0, 1, 100, 5000} {
			doReceive(diReq{MaxPayload: "100000", Mode: mode, Rate: "67108864", Burst: "67108864"})
			data := randBytes(r, 20000)
			w := &recFlusher{}
			err, finished := sendDirect(w, &chunkReader{data: data, chunk: 1000, failAt: k, gateAt: -1}, false, make(chan *interop.Reset))
			n++
			if !c.Check(finished, "copy_terminates", "C17/copy/hang-on-read-fault", "copy did not terminate after a read fault", nil) {
				return
			}
			var te *interop.ErrTruncatedResponse
			c.Check(w.Header().Get(directinvoke.EndOfResponseTrailer) == directinvoke.EndOfResponseTruncated && errors.As(err, &te), "truncated_on_read_fault", "C17/copy/read-fault-classification/"+mode, fmt.Sprintf("read fault after %d bytes classified %q (%v)", k, w.Header().Get(directinvoke.EndOfResponseTrailer), err), nil)
			c.Check(bytes.HasPrefix(data, w.body()), "copy_faithful_prefix", "C17/copy/bytes-after-fault", "bytes forwarded before the fault are not a prefix of the payload", nil)
		}
		for _, k := range []int{1, 2, 3} {
			doReceive(diReq{MaxPayload: "100000", Mode: mode, Rate: "67108864", Burst: "67108864"})
			data := randBytes(r, 20000)
			w := &recFlusher{failAt: k}
			err, finished := sendDirect(w, &chunkReader{data: data, chunk: 1000, failAt: -1, gateAt: -1}, false, make(chan *interop.Reset))
			n++
			if !c.Check(finished, "copy_terminates", "C17/copy/hang-on-write-fault", "copy did not terminate after a write fault", nil) {
				return
			}
			var te *interop.ErrTruncatedResponse
			c.Check(w.Header().Get(directinvoke.EndOfResponseTrailer) == directinvoke.EndOfResponseTruncated && errors.As(err, &te), "truncated_on_write_fault", "C17/copy/write-fault-classification/"+mode, fmt.Sprintf("write fault at write %d classified %q (%v)", k, w.Header().Get(directinvoke.EndOfResponseTrailer), err), nil)
		}
	}
	c.Counter("copies", n)
	c.SetTrace("copy", true)
	c.SetSample(map[string]interface{}{"copies": n, "limits": limits})
}

// ---- resets arriving at any point of a streaming copy ----

func runC17Reset(c *Ctx, d c17Desc) {
	r := rng(c.Seed, "c17reset")
	n := 0
	for _, reason := range []string{"timeout", "failure", "other"} {
		for _, errShape := range []bool{false, true} {
			for _, k := range []int{0, 1, 2, 5, 10} {
				doReceive(diReq{MaxPayload: "-1", Rate: "67108864", Burst: "67108864"})
				data := randBytes(r, 12000)
				gate := make(chan struct{})
				rd := &chunkReader{data: data, chunk: 1000, failAt: -1, gate: gate, gateAt: k * 1000}
				resetCh := make(chan *interop.Reset)
				w := &recFlusher{}
				res := make(chan error, 1)
				fin := make(chan bool, 1)
				go func() {
					err, ok := sendDirect(w, rd, errShape, resetCh)
					res <- err
					fin <- ok
				}()
				// wait until k chunks were forwarded, then deliver the reset
				dl := time.Now().Add(5 * time.Second)
				for time.Now().Before(dl) && len(w.body()) < k*1000 {
					time.Sleep(100 * time.Microsecond)
				}
				rs := &interop.Reset{Reason: reason}
				select {
				case resetCh <- rs:
				case <-time.After(5 * time.Second):
					c.Check(false, "reset_accepted", "C17/reset/not-accepted", "the copy did not take the reset", nil)
					close(gate)
					return
				}
				time.Sleep(5 * time.Millisecond) // let the copy's owner act on the reset (cancel the writer)
				close(gate)                      // the reader continues; the writer is cancelled now
				select {
				case <-resetCh: // acknowledgement (metrics attached)
				case <-time.After(5 * time.Second):
					c.Check(false, "reset_acknowledged", "C17/reset/not-acknowledged", "the copy did not acknowledge the reset", nil)
					return
				}
				err := <-res
				ok := <-fin
				n++
				if !c.Check(ok, "copy_terminates", "C17/reset/hang", "copy did not terminate after a reset", nil) {
					return
				}
				tr := w.Header().Get(directinvoke.EndOfResponseTrailer)
				var te *interop.ErrTruncatedResponse
				if tr == directinvoke.EndOfResponseComplete && len(w.body()) == len(data) {
					// the copy finished concurrently with the reset: a legal outcome of the race
					c.Counter("reset_lost_race_with_completion", 1)
				} else {
					c.Check(tr == directinvoke.EndOfResponseTruncated && errors.As(err, &te), "truncated_on_reset", fmt.Sprintf("C17/reset/classification/%s", tr), fmt.Sprintf("reset after %d chunks classified %q (%v)", k, tr, err), nil)
					c.Check(bytes.HasPrefix(data, w.body()) && len(w.body()) <= (k+1)*1000, "copy_stops_at_reset", "C17/reset/bytes", fmt.Sprintf("forwarded %d bytes after a reset at %d", len(w.body()), k*1000), nil)
				}
				c.Check(rs.InvokeResponseMetrics != nil, "reset_metrics", "C17/reset/metrics", "reset did not receive the copy metrics", nil)
				if !errShape {
					want := map[string]string{"timeout": "Sandbox.Timeout", "failure": "Sandbox.Failure", "other": "Sandbox.Failure"}[reason]
					c.Check(w.Header().Get(directinvoke.FunctionErrorTypeTrailer) == want, "reset_error_type", "C17/reset/error-type", "error type trailer after reset", w.Header().Get(directinvoke.FunctionErrorTypeTrailer))
				}
			}
		}
	}
	// the runtime's upload stalls in the middle of the body (a hung function): the copy sits in Read() on the
	// runtime's connection and only closing that connection can end it - nothing in the harness unblocks it
	for _, reason := range []string{"timeout", "failure"} {
		for _, k := range []int{0, 1, 3} {
			doReceive(diReq{MaxPayload: "-1", Rate: "67108864", Burst: "67108864"})
			data := randBytes(r, 8000)
			server, client := net.Pipe()
			req, _ := http.NewRequest("POST", "http://runtime/response", nil)
			req = req.WithContext(context.WithValue(req.Context(), interop.HTTPConnKey, server))
			go client.Write(data[:k*1000]) // then silence
			resetCh := make(chan *interop.Reset)
			w := &recFlusher{}
			res := make(chan error, 1)
			fin := make(chan bool, 1)
			go func() {
				err, ok := sendDirectReq(w, server, false, resetCh, &interop.CancellableRequest{Request: req})
				res <- err
				fin <- ok
			}()
			dl := time.Now().Add(5 * time.Second)
			for time.Now().Before(dl) && len(w.body()) < k*1000 {
				time.Sleep(100 * time.Microsecond)
			}
			time.Sleep(2 * time.Millisecond)
			rs := &interop.Reset{Reason: reason}
			select {
			case resetCh <- rs:
			case <-time.After(5 * time.Second):
				c.Check(false, "reset_accepted", "C17/reset/not-accepted", "the copy did not take the reset", nil)
				client.Close()
				return
			}
			acked := false
			select {
			case <-resetCh:
				acked = true
			case <-time.After(5 * time.Second):
			}
			n++
			if !c.Check(acked, "copy_terminates", "C17/reset/hang-stalled-read", fmt.Sprintf("a reset (%s) while the copy was blocked reading the runtime's stalled upload (after %d bytes) was never acknowledged: the copy did not terminate", reason, k*1000), nil) {
				client.Close()
				return
			}
			err := <-res
			<-fin
			client.Close()
			tr := w.Header().Get(directinvoke.EndOfResponseTrailer)
			var te *interop.ErrTruncatedResponse
			c.Check(tr == directinvoke.EndOfResponseTruncated && errors.As(err, &te), "truncated_on_reset", fmt.Sprintf("C17/reset/classification-stalled/%s", tr), fmt.Sprintf("reset during a stalled upload classified %q (%v)", tr, err), nil)
			c.Check(bytes.Equal(w.body(), data[:k*1000]), "copy_stops_at_reset", "C17/reset/bytes-stalled", fmt.Sprintf("forwarded %d bytes, the runtime had sent %d", len(w.body()), k*1000), nil)
		}
	}
	c.Counter("resets", n)
	c.SetTrace("reset", true)
	c.SetSample(map[string]interface{}{"resets": n})
}

// ---- (c) rate bound ----

func runC17Rate(c *Ctx, d c17Desc) {
	r := rng(c.Seed, "c17rate"+d.Salt)
	n := 0
	for i := 0; i < d.N; i++ {
		rates := []int64{32768, 65536, 1 << 20, 8 << 20, 64 << 20}
		bursts := []int64{32768, 65536, 1 << 20, 4 << 20}
		rate := rates[r.Intn(len(rates))]
		burst := bursts[r.Intn(len(bursts))]
		refill := rate * 125 / 1000
		if refill > burst {
			refill = burst // a tick cannot put more tokens into the bucket than its capacity
		}
		size := burst + refill*int64(2+r.Intn(3)) + int64(r.Intn(1000))
		if size > 24<<20 {
			size = 24 << 20
		}
		if _, err, _ := doReceive(diReq{MaxPayload: "-1", Rate: fmt.Sprint(rate), Burst: fmt.Sprint(burst)}); err != nil {
			c.Inconclusive("setup refused: " + err.Error())
			return
		}
		data := make([]byte, size)
		w := &recFlusher{}
		c.Note("rate=%d burst=%d size=%d", rate, burst, size)
		t0 := time.Now()
		err, finished := sendDirect(w, &chunkReader{data: data, chunk: []int{0, 4096, 100000}[r.Intn(3)], failAt: -1, gateAt: -1}, false, make(chan *interop.Reset))
		n++
		if !c.Check(finished && err == nil, "copy_terminates", "C17/rate/hang-or-error", fmt.Sprintf("rate-limited copy did not complete: %v", err), nil) {
			return
		}
		c.Check(int64(len(w.body())) == size, "rate_copy_complete", "C17/rate/bytes", "rate-limited copy lost bytes", len(w.body()))
		var sum int64
		viol := ""
		for j, ch := range w.chunks {
			sum += int64(len(ch))
			el := w.times[j].Sub(t0)
			allowed := burst + int64(float64(rate)*el.Seconds())
			if sum > allowed && viol == "" {
				viol = fmt.Sprintf("after write %d: %d bytes forwarded at %.1f ms, bound burst+rate*elapsed = %d (rate %d, burst %d)", j, sum, float64(el)/1e6, allowed, rate, burst)
			}
		}
		c.Check(viol == "", "rate_bound", "C17/rate/bound-exceeded", "forwarded volume exceeded burst + rate x elapsed: "+viol, nil)
		c.Counter("rate_writes", len(w.chunks))
		// it must also have been throttled at all (otherwise the bound is vacuous): total time >= (size-burst)/rate minus one tick
		minDur := time.Duration(float64(size-burst)/float64(refill)*float64(125*time.Millisecond)) - 260*time.Millisecond
		if minDur > 0 {
			c.Check(w.times[len(w.times)-1].Sub(t0) >= minDur, "rate_actually_limited", "C17/rate/not-limited", fmt.Sprintf("copy of burst+%d bytes at rate %d finished in %.0f ms", size-burst, rate, float64(w.times[len(w.times)-1].Sub(t0))/1e6), nil)
		}
	}
	c.Counter("rate_cases", n)
	c.SetTrace("rate"+d.Salt, true)
	c.SetSample(map[string]interface{}{"cases": n})
}

var _ = vh.Digest

// runC17Wakeup delays the writer at the pause point between "not enough tokens" and
// "wait for the next refill" for longer than a refill interval, so that the refill (which
// may fill the bucket to its capacity) happens BEFORE the writer starts waiting. The copy
// must still terminate: a later tick has to wake the writer even if it added no tokens.
func runC17Wakeup(c *Ctx, d c17Desc) {
	var hits int64
	verifhook.Set(func(name string) {
		if name == "throttler.beforeWait" {
			atomic.AddInt64(&hits, 1)
			time.Sleep(300 * time.Millisecond)
		}
	})
	defer verifhook.Set(nil)
	n := 0
	for _, cfg := range []struct{ rate, burst int64 }{{262144, 32768}, {1 << 20, 32768}, {64 << 20, 32768}, {64 << 20, 1 << 20}, {65536, 32768}} {
		if _, err, _ := doReceive(diReq{MaxPayload: "-1", Rate: fmt.Sprint(cfg.rate), Burst: fmt.Sprint(cfg.burst)}); err != nil {
			c.Inconclusive("setup refused: " + err.Error())
			return
		}
		size := cfg.burst*4 + 17
		w := &recFlusher{}
		t0 := time.Now()
		err, finished := sendDirect(w, &chunkReader{data: make([]byte, size), chunk: 0, failAt: -1, gateAt: -1}, false, make(chan *interop.Reset))
		n++
		if !c.Check(finished && err == nil, "copy_terminates", "C17/rate/hang-after-delayed-wait", fmt.Sprintf("copy with rate %d burst %d did not complete after the writer was delayed before its wait for a refill: %v", cfg.rate, cfg.burst, err), nil) {
			break
		}
		c.Check(int64(len(w.body())) == size, "rate_copy_complete", "C17/rate/bytes", "rate-limited copy lost bytes", len(w.body()))
		var sum int64
		for j, ch := range w.chunks {
			sum += int64(len(ch))
			el := w.times[j].Sub(t0)
			allowed := cfg.burst + int64(float64(cfg.rate)*el.Seconds())
			if !c.Check(sum <= allowed, "rate_bound", "C17/rate/bound-exceeded", fmt.Sprintf("after write %d: %d bytes forwarded at %.1f ms, bound %d", j, sum, float64(el)/1e6, allowed), nil) {
				break
			}
		}
	}
	h := int(atomic.LoadInt64(&hits))
	if h == 0 {
		c.Inconclusive("pause point throttler.beforeWait was never reached")
	}
	c.SetHooks(map[string]int{"throttler.beforeWait": h})
	c.Counter("delayed_waits", h)
	c.Counter("wakeup_cases", n)
	c.SetTrace("wakeup", true)
	c.SetSample(map[string]interface{}{"cases": n, "delayed_waits": h})
}

// ---- (e) the interop server's own part: one answer per direct invocation ----
//
// A direct invoke through the real in-process stack: reservation, ReceiveDirectInvoke against the reservation
// token, FastInvoke(direct), the runtime's /response copied by the server in direct mode - and then, in half of
// the scenarios, the runtime exits, so that the platform produces its own error answer for the SAME invocation.
// What the caller holds must stay what the copy wrote: the (cut) bytes of the runtime, classified once.
func runC17Server(c *Ctx, d c17Desc) {
	for _, sc := range []struct {
		name      string
		limit     int
		size      int
		mode      string
		exitAfter bool
	}{
		{"oversized-buffered-then-exit", 100, 110, "", true},
		{"oversized-streaming-then-exit", 100, 110, "streaming", true},
		{"oversized-buffered", 1000, 1001, "", false},
		{"complete-streaming", 1000, 1000, "streaming", false},
		{"complete-buffered-then-exit", 1000, 10, "", true},
		{"complete-streaming-then-exit", 64, 64, "streaming", true},
	} {
		sc := sc
		w, err := NewWorld(vh.Config{TimeoutMs: 5000})
		if err != nil {
			c.Inconclusive("harness: " + err.Error())
			return
		}
		body := make([]byte, sc.size)
		for i := range body {
			body[i] = byte('a' + i%26)
		}
		w.RtPlan = func(gen int, p *vh.Proc) vh.ExecPlan {
			return vh.ExecPlan{Behave: w.RtLoop(RtOpts{Handle: func(p *vh.Proc, pt *vh.Party, n int, ev *vh.Resp) *vh.Exit {
				pt.Respond(ev.ReqID(), body, map[string]string{"Content-Type": "application/octet-stream"})
				if sc.exitAfter && gen == 1 {
					return &vh.Exit{Code: 1}
				}
				return nil
			}})}
		}
		w.E.Init()
		func() {
			defer w.Close()
			rr, err := w.E.Srv.Reserve("", "", "")
			if err != nil || w.E.Srv.AwaitInitialized() != nil {
				c.Inconclusive("harness: reservation / init failed")
				return
			}
			tok := rr.Token
			req := httptest.NewRequest("POST", "/invoke/"+tok.ReservationToken, bytes.NewReader([]byte(`{"direct":true}`)))
			rctx := chi.NewRouteContext()
			rctx.URLParams.Add("reservationtoken", tok.ReservationToken)
			req = req.WithContext(context.WithValue(req.Context(), chi.RouteCtxKey, rctx))
			req.Header.Set(directinvoke.InvokeIDHeader, tok.InvokeID)
			req.Header.Set(directinvoke.VersionIDHeader, tok.VersionID)
			req.Header.Set(directinvoke.MaxPayloadSizeHeader, fmt.Sprint(sc.limit))
			if sc.mode != "" {
				req.Header.Set(directinvoke.InvokeResponseModeHeader, sc.mode)
			}
			rec := &recFlusher{}
			inv, err := directinvoke.ReceiveDirectInvoke(rec, req, tok)
			if !c.Check(err == nil, "direct_request_accepted", "C17/server/request-refused/"+sc.name, "a direct invoke request matching the reservation token was refused", fmt.Sprint(err)) {
				return
			}
			done := make(chan error, 1)
			go func() {
				if err := w.E.Srv.FastInvoke(rec, inv, true); err != nil {
					done <- err
					return
				}
				_, err := w.E.Srv.AwaitRelease()
				done <- err
			}()
			var relErr error
			select {
			case relErr = <-done:
			case <-time.After(12 * time.Second):
				c.Check(false, "copy_terminates", "C17/server/hang/"+sc.name, "the direct invocation never completed", nil)
				c.SetSample(sampleLog(w, 120))
				return
			}
			if relErr != nil {
				rd := make(chan struct{})
				go func() { w.E.Srv.Reset("failure", 2000); close(rd) }()
				select {
				case <-rd:
				case <-time.After(10 * time.Second):
					c.Check(false, "copy_terminates", "C17/server/reset-hang/"+sc.name, "the reset after the failed direct invocation never returned", nil)
					return
				}
			}
			time.Sleep(20 * time.Millisecond)
			want, cls := body, directinvoke.EndOfResponseComplete
			if sc.size > sc.limit {
				want, cls = body[:sc.limit+1], directinvoke.EndOfResponseOversized
			}
			got := rec.body()
			c.Check(bytes.Equal(got, want), "one_answer_per_direct_invocation", fmt.Sprintf("C17/server/bytes/%s/%d-vs-%d", sc.name, len(got), len(want)), fmt.Sprintf("the caller of a direct invocation holds %d bytes, the runtime's (cut) response has %d: %q", len(got), len(want), trunc(got)), nil)
			rec.mu.Lock()
			tr := rec.Header().Get(directinvoke.EndOfResponseTrailer)
			rec.mu.Unlock()
			c.Check(tr == cls, "classification", fmt.Sprintf("C17/server/classification/%s/%s-vs-%s", sc.name, tr, cls), fmt.Sprintf("End-Of-Response %q, expected %q", tr, cls), nil)
			c.Counter("server_direct_invocations", 1)
		}()
	}
	c.SetTrace("server"+d.Salt, true)
}
