// Package fw is the case-runner framework shared by the driver command and
// the front-end test binary: it runs the cases of one property check against
// the real code and writes one JSON line per case (a "start" line before, a
// "done" line after) to the journal given by -out.
package fw

import (
	"bufio"
	"encoding/json"
	"flag"
	"fmt"
	"os"
	"runtime"
	"runtime/debug"
	"strings"
	"sync"
	"time"

	log "github.com/sirupsen/logrus"

	"go.amzn.com/verifharness/vh"
)

// Violation is one refutation of a clause, with a stable signature.
type Violation struct {
	Sig    string      `json:"sig"`
	What   string      `json:"what"`
	Detail interface{} `json:"detail,omitempty"`
}

// Result is the journal record of one executed case.
type Result struct {
	Done         string            `json:"done"`
	Class        string            `json:"class,omitempty"`
	Desc         interface{}       `json:"desc,omitempty"`
	Viol         []Violation       `json:"viol,omitempty"`
	Clauses      map[string]int    `json:"clauses,omitempty"`
	Trace        string            `json:"trace,omitempty"` // normalised observed trace hash input
	Nontrivial   bool              `json:"nontrivial"`
	Inconclusive string            `json:"inconclusive,omitempty"`
	Hooks        map[string]int    `json:"hooks,omitempty"`
	States       []string          `json:"states,omitempty"`
	Counters     map[string]int    `json:"counters,omitempty"`
	WallMs       int64             `json:"wall_ms"`
	Sample       interface{}       `json:"sample,omitempty"`
	Hang         bool              `json:"hang,omitempty"`
	Notes        []string          `json:"notes,omitempty"`
	Interleaving string            `json:"interleaving,omitempty"`
}

// Ctx is handed to a running case.
type Ctx struct {
	mu   sync.Mutex
	res  Result
	Tier string
	Seed int64
	WantSample bool
	taint string
}

func (c *Ctx) Violate(sig, what string, detail interface{}) {
	c.mu.Lock()
	defer c.mu.Unlock()
	for _, v := range c.res.Viol {
		if v.Sig == sig {
			return
		}
	}
	c.res.Viol = append(c.res.Viol, Violation{Sig: sig, What: what, Detail: detail})
}

// Sigs returns the signatures of the violations recorded so far (oracle self-tests).
func (c *Ctx) Sigs() []string {
	c.mu.Lock()
	defer c.mu.Unlock()
	var res []string
	for _, v := range c.res.Viol {
		res = append(res, v.Sig)
	}
	return res
}

func (c *Ctx) Violated() bool {
	c.mu.Lock()
	defer c.mu.Unlock()
	return len(c.res.Viol) > 0
}

// Clause counts one non-vacuous evaluation of an oracle clause.
func (c *Ctx) Clause(name string) { c.ClauseN(name, 1) }

func (c *Ctx) ClauseN(name string, n int) {
	c.mu.Lock()
	defer c.mu.Unlock()
	if c.res.Clauses == nil {
		c.res.Clauses = map[string]int{}
	}
	c.res.Clauses[name] += n
}

func (c *Ctx) Counter(name string, n int) {
	c.mu.Lock()
	defer c.mu.Unlock()
	if c.res.Counters == nil {
		c.res.Counters = map[string]int{}
	}
	c.res.Counters[name] += n
}

// Check evaluates a clause: counts it and records a violation if !ok.
func (c *Ctx) Check(ok bool, clause, sig, what string, detail interface{}) bool {
	c.Clause(clause)
	if !ok {
		c.Violate(sig, what, detail)
	}
	return ok
}

// Taint marks the case as affected by a named, separately recorded defect
// (see known_findings.jsonl): when the case ends, every violation signature
// of the case is replaced by <property>/tainted/<name>, so that the listed
// finding is recognised whatever clause it happened to trip.
func (c *Ctx) Taint(name string) {
	c.mu.Lock()
	defer c.mu.Unlock()
	if c.taint == "" {
		c.taint = name
	}
}

func (c *Ctx) Inconclusive(reason string) {
	c.mu.Lock()
	defer c.mu.Unlock()
	if c.res.Inconclusive == "" {
		c.res.Inconclusive = reason
	}
}

func (c *Ctx) Note(format string, a ...interface{}) {
	c.mu.Lock()
	defer c.mu.Unlock()
	if len(c.res.Notes) < 20 {
		c.res.Notes = append(c.res.Notes, fmt.Sprintf(format, a...))
	}
}

func (c *Ctx) SetTrace(t string, nontrivial bool) {
	c.mu.Lock()
	defer c.mu.Unlock()
	c.res.Trace = t
	c.res.Nontrivial = nontrivial
}

func (c *Ctx) SetInterleaving(s string) {
	c.mu.Lock()
	defer c.mu.Unlock()
	c.res.Interleaving = s
}

func (c *Ctx) State(s string) {
	c.mu.Lock()
	defer c.mu.Unlock()
	for _, x := range c.res.States {
		if x == s {
			return
		}
	}
	c.res.States = append(c.res.States, s)
}

func (c *Ctx) SetSample(s interface{}) {
	c.mu.Lock()
	defer c.mu.Unlock()
	c.res.Sample = s
}

func (c *Ctx) SetHooks(h map[string]int) {
	c.mu.Lock()
	defer c.mu.Unlock()
	c.res.Hooks = h
}

// Case is one unit of work of a check.
type Case struct {
	ID      string
	Class   string
	Desc    interface{}
	Timeout time.Duration
	Run     func(c *Ctx)
}

// Generator produces the deterministic case list of a property.
type Generator func(tier string, seed int64) []Case

var Registry = map[string]Generator{}

func Register(prop string, g Generator) { Registry[prop] = g }

func Main(args []string) {
	fs := flag.NewFlagSet("driver", flag.ExitOnError)
	var (
		tier    = fs.String("tier", "quick", "quick|thorough")
		seed    = fs.Int64("seed", 1, "seed")
		shard   = fs.Int("shard", 0, "shard index")
		nshards = fs.Int("nshards", 1, "number of shards")
		out     = fs.String("out", "", "journal file (appended)")
		only    = fs.String("only", "", "run only this case id")
		after   = fs.String("after", "", "skip cases up to and including this id (resume)")
		list    = fs.Bool("list", false, "list case ids and exit")
		portLo  = fs.Int("portlo", 20000, "first port of this process's range")
		portHi  = fs.Int("porthi", 20400, "end of this process's port range")
		sampleN = fs.Int("samples", 3, "attach an observed trace to the first N cases")
	)
	fs.Parse(args)
	if fs.NArg() != 1 {
		fmt.Fprintln(os.Stderr, "usage: driver [flags] <property>")
		os.Exit(64)
	}
	prop := fs.Arg(0)
	gen, ok := Registry[prop]
	if !ok {
		fmt.Fprintln(os.Stderr, "unknown property", prop)
		os.Exit(64)
	}
	debug.SetGCPercent(100)
	log.SetLevel(log.PanicLevel)
	vh.SetPortRange(*portLo, *portHi)

	cases := gen(*tier, *seed)
	if *list {
		for _, c := range cases {
			fmt.Println(c.ID)
		}
		return
	}
	var w *bufio.Writer
	var f *os.File
	if *out != "" {
		var err error
		f, err = os.OpenFile(*out, os.O_CREATE|os.O_APPEND|os.O_WRONLY, 0o644)
		if err != nil {
			fmt.Fprintln(os.Stderr, err)
			os.Exit(70)
		}
		w = bufio.NewWriter(f)
	} else {
		w = bufio.NewWriter(os.Stdout)
	}
	emit := func(v interface{}) {
		b, err := json.Marshal(v)
		if err != nil {
			b, _ = json.Marshal(map[string]string{"marshal_error": err.Error()})
		}
		w.Write(b)
		w.WriteByte('\n')
		w.Flush()
		if f != nil {
			f.Sync()
		}
	}
	skipping := *after != ""
	nrun := 0
	lastID := *after
	for idx, cs := range cases {
		if *only != "" {
			if cs.ID != *only {
				continue
			}
		} else {
			if idx%*nshards != *shard {
				continue
			}
			if skipping {
				if cs.ID == *after {
					skipping = false
				}
				continue
			}
		}
		if vh.PortsLeft() < 12 && nrun > 0 {
			// every emulator instance keeps its TCP port until the process ends:
			// hand over to a fresh process
			emit(map[string]interface{}{"paused_after": lastID, "ran": nrun})
			return
		}
		lastID = cs.ID
		emit(map[string]string{"start": cs.ID})
		ctx := &Ctx{Tier: *tier, Seed: *seed, WantSample: nrun < *sampleN || *only != ""}
		ctx.res.Done = cs.ID
		ctx.res.Class = cs.Class
		ctx.res.Desc = cs.Desc
		to := cs.Timeout
		if to == 0 {
			to = 30 * time.Second
		}
		t0 := time.Now()
		done := make(chan struct{})
		go func() {
			defer close(done)
			cs.Run(ctx)
		}()
		select {
		case <-done:
		case <-time.After(to):
			// wedge: dump goroutines, record, and leave (state is unusable)
			buf := make([]byte, 4<<20)
			n := runtime.Stack(buf, true)
			fmt.Fprintf(os.Stderr, "=== HANG in case %s after %s ===\n%s\n", cs.ID, to, buf[:n])
			ctx.mu.Lock()
			ctx.res.Hang = true
			ctx.res.WallMs = time.Since(t0).Milliseconds()
			r := ctx.res
			ctx.mu.Unlock()
			emit(r)
			os.Exit(3)
		}
		ctx.mu.Lock()
		ctx.res.WallMs = time.Since(t0).Milliseconds()
		if ctx.taint != "" && len(ctx.res.Viol) > 0 {
			byProp := map[string]bool{}
			var nv []Violation
			for _, v := range ctx.res.Viol {
				p := v.Sig
				if i := strings.Index(p, "/"); i > 0 {
					p = p[:i]
				}
				if !byProp[p] {
					byProp[p] = true
					nv = append(nv, Violation{Sig: p + "/tainted/" + ctx.taint, What: "[" + ctx.taint + "] " + v.What, Detail: v.Detail})
				}
			}
			ctx.res.Viol = nv
		}
		r := ctx.res
		ctx.mu.Unlock()
		emit(r)
		nrun++
	}
	emit(map[string]interface{}{"shard_complete": *shard, "ran": nrun})
}

