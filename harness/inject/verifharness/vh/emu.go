package vh

import (
	"bytes"
	"errors"
	"fmt"
	"go.amzn.com/lambda/metering"
	"net"
	"net/http"
	"os"
	"path/filepath"
	"sync"
	"sync/atomic"
	"time"

	"go.amzn.com/lambda/core/statejson"
	"go.amzn.com/lambda/fatalerror"
	"go.amzn.com/lambda/interop"
	"go.amzn.com/lambda/rapidcore"
	"go.amzn.com/lambda/rapidcore/env"
	supvmodel "go.amzn.com/lambda/supervisor/model"
)

// Config describes one emulator instance.
type Config struct {
	TimeoutMs                     int64    // function timeout
	Extensions                    []string // file names created under <root>/opt/extensions
	ExtDirs                       []string // directory names created there too (must not be launched)
	Snapshot                      bool     // init caching (snapstart) mode
	Handler                       string
	BuilderHandler                string
	CustomerEnv                   map[string]string
	FunctionName                  string
	FunctionVersion               string
	AccountID                     string
	AwsKey, AwsSecret, AwsSession string
	CredsExpiry                   time.Time      // expiry of the credentials handed over at init
	SlowEventsMs                  map[string]int // slow telemetry sink: per lifecycle event (InvokeStart, InitStart) the time the Send call takes
	BootstrapCmd                  []string
	BootstrapErr                  error // Cmd() fails with this
	Port                          int   // 0 = pick from the allocator
}

// Emu is one assembled emulator with its scripted environment.
type Emu struct {
	Cfg   Config
	Log   *Log
	Sup   *FakeSup
	Srv   *rapidcore.Server
	API   rapidcore.LambdaInvokeAPI
	SbCtx interop.SandboxContext
	Addr  string
	Root  string
	Ev    *RecEvents
	Tr    *RecTracer
	state interop.InternalStateGetter

	callerN atomic.Int64
	parties []*Party
	pmu     sync.Mutex
}

// ---- port allocation ----

var (
	portMu   sync.Mutex
	portNext int
	portMax  int
)

// SetPortRange gives this process a private port range.
func SetPortRange(lo, hi int) {
	portMu.Lock()
	defer portMu.Unlock()
	portNext, portMax = lo, hi
}

// PortsLeft reports how many ports of this process's range are unused.
func PortsLeft() int {
	portMu.Lock()
	defer portMu.Unlock()
	if portNext == 0 {
		return 1 << 20
	}
	return portMax - portNext
}

func allocPort() (int, error) {
	portMu.Lock()
	defer portMu.Unlock()
	if portNext == 0 {
		portNext, portMax = 20000, 30000
	}
	for portNext < portMax {
		p := portNext
		portNext++
		ln, err := net.Listen("tcp", fmt.Sprintf("127.0.0.1:%d", p))
		if err != nil {
			continue
		}
		ln.Close()
		return p, nil
	}
	return 0, errors.New("harness: port range exhausted")
}

// ---- bootstrap ----

type fakeBootstrap struct {
	cmd []string
	err error
	cwd string
}

func (b *fakeBootstrap) Cmd() ([]string, error) {
	if b.err != nil {
		return nil, b.err
	}
	return b.cmd, nil
}
func (b *fakeBootstrap) Env(e *env.Environment) map[string]string { return e.RuntimeExecEnv() }
func (b *fakeBootstrap) Cwd() (string, error)                     { return b.cwd, nil }
func (b *fakeBootstrap) ExtraFiles() []*os.File                   { return []*os.File{} }
func (b *fakeBootstrap) CachedFatalError(err error) (fatalerror.ErrorType, string, bool) {
	return fatalerror.ErrorType(""), "", false
}

// NewBootstrap returns an interop.Bootstrap for the given command (used by the front-end engine).
func NewBootstrap(cmd []string, cwd string) interop.Bootstrap {
	return &fakeBootstrap{cmd: cmd, cwd: cwd}
}

var tmpBase = func() string {
	d := os.Getenv("VERIF_TMP")
	if d == "" {
		d = os.TempDir()
	}
	return d
}()

var rootSeq atomic.Int64

// NewEmu assembles a fresh emulator instance: real interop server, real
// orchestrator, real Runtime API server on a TCP port; fake supervisor,
// recording events API and tracer. Init is not called yet.
func NewEmu(cfg Config) (*Emu, error) {
	if cfg.TimeoutMs == 0 {
		cfg.TimeoutMs = 5000
	}
	if cfg.FunctionName == "" {
		cfg.FunctionName = "test_function"
	} else if cfg.FunctionName == "-" {
		cfg.FunctionName = "" // explicitly empty
	}
	if cfg.FunctionVersion == "" {
		cfg.FunctionVersion = "$LATEST"
	} else if cfg.FunctionVersion == "-" {
		cfg.FunctionVersion = ""
	}
	if cfg.BootstrapCmd == nil {
		cfg.BootstrapCmd = []string{"/var/runtime/bootstrap"}
	}
	l := NewLog()
	port := cfg.Port
	osAssigned := false
	if port == -1 {
		port, osAssigned = 0, true // "port 0": the OS picks the port
	} else if port == 0 {
		var err error
		if port, err = allocPort(); err != nil {
			return nil, err
		}
	}
	root, err := os.MkdirTemp(tmpBase, fmt.Sprintf("vhroot-%d-", rootSeq.Add(1)))
	if err != nil {
		return nil, err
	}
	extDir := filepath.Join(root, "opt", "extensions")
	if len(cfg.Extensions)+len(cfg.ExtDirs) > 0 {
		if err := os.MkdirAll(extDir, 0o755); err != nil {
			return nil, err
		}
		for _, n := range cfg.Extensions {
			if err := os.WriteFile(filepath.Join(extDir, n), []byte("#!/bin/sh\n"), 0o755); err != nil {
				return nil, err
			}
		}
		for _, n := range cfg.ExtDirs {
			if err := os.MkdirAll(filepath.Join(extDir, n), 0o755); err != nil {
				return nil, err
			}
		}
	}
	e := &Emu{Cfg: cfg, Log: l, Root: root, Addr: fmt.Sprintf("127.0.0.1:%d", port)}
	e.Sup = NewFakeSup(l)
	e.Ev = &RecEvents{log: l, SlowMs: cfg.SlowEventsMs}
	e.Tr = newRecTracer(l)
	sb := rapidcore.NewSandboxBuilder().
		SetSupervisor(e.Sup).
		SetRuntimeFsRootPath(root).
		SetRuntimeAPIAddress(e.Addr).
		SetExtensionsFlag(true).
		SetInitCachingFlag(cfg.Snapshot).
		SetEventsAPI(e.Ev).
		SetTracer(e.Tr)
	if cfg.BuilderHandler != "" {
		sb.SetHandler(cfg.BuilderHandler)
	}
	ctx, stateFn := sb.Create()
	e.SbCtx = ctx
	e.state = stateFn
	e.Srv = sb.DefaultInteropServer()
	e.Srv.SetSandboxContext(ctx)
	e.Srv.SetInternalStateGetter(stateFn)
	e.API = sb.LambdaInvokeAPI()
	// wait for the API server to listen
	deadline := time.Now().Add(5 * time.Second)
	for !osAssigned {
		c, err := net.DialTimeout("tcp", e.Addr, 200*time.Millisecond)
		if err == nil {
			c.Close()
			break
		}
		if time.Now().After(deadline) {
			return nil, fmt.Errorf("harness: runtime API did not come up on %s", e.Addr)
		}
		time.Sleep(300 * time.Microsecond)
	}
	if osAssigned {
		time.Sleep(50 * time.Millisecond)
	}
	return e, nil
}

// InitParams returns the interop.Init the harness passes to Init.
func (e *Emu) InitParams() *interop.Init {
	cfg := e.Cfg
	cust := map[string]string{}
	for k, v := range cfg.CustomerEnv {
		cust[k] = v
	}
	return &interop.Init{
		AccountID:                    cfg.AccountID,
		Handler:                      cfg.Handler,
		AwsKey:                       cfg.AwsKey,
		AwsSecret:                    cfg.AwsSecret,
		AwsSession:                   cfg.AwsSession,
		CredentialsExpiry:            cfg.CredsExpiry,
		XRayDaemonAddress:            "0.0.0.0:0",
		FunctionName:                 cfg.FunctionName,
		FunctionVersion:              cfg.FunctionVersion,
		RuntimeInfo:                  interop.RuntimeInfo{ImageJSON: "{}"},
		CustomerEnvironmentVariables: cust,
		SandboxType:                  interop.SandboxClassic,
		Bootstrap:                    &fakeBootstrap{cmd: cfg.BootstrapCmd, err: cfg.BootstrapErr, cwd: e.Root},
		EnvironmentVariables:         env.NewEnvironment(),
	}
}

// Init starts initialisation through the emulator API (as the front end does).
func (e *Emu) Init() {
	e.Log.Add(Event{Src: "drv", Kind: "call", Op: "init"})
	e.API.Init(e.InitParams(), e.Cfg.TimeoutMs)
	e.Log.Add(Event{Src: "drv", Kind: "ret", Op: "init"})
}

// Close releases what can be released (processes, temp dir). The Runtime API
// server of an instance cannot be stopped through the exported API.
func (e *Emu) Close() {
	e.Sup.KillAllForCleanup()
	e.pmu.Lock()
	for _, p := range e.parties {
		p.Close()
	}
	e.pmu.Unlock()
	os.RemoveAll(e.Root)
}

// PartyFor returns an HTTP party acting for process p.
func (e *Emu) PartyFor(p *Proc) *Party {
	pre := "rt:"
	if p.Role == "ext" {
		pre = "ext:"
	}
	pt := NewParty(pre+p.Name, e.Addr, e.Log, p.Ctx)
	e.pmu.Lock()
	e.parties = append(e.parties, pt)
	e.pmu.Unlock()
	return pt
}

// State returns the emulator's internal state snapshot.
func (e *Emu) State() statejson.InternalStateDescription { return e.state() }

// RuntimeState returns the runtime's state name ("" if there is no runtime).
func (e *Emu) RuntimeState() string {
	s := e.state()
	if s.Runtime == nil {
		return ""
	}
	return s.Runtime.State.Name
}

// ExtState returns the state name of the extension called name.
func (e *Emu) ExtState(name string) string {
	for _, x := range e.state().Extensions {
		if x.Name == name {
			return x.State.Name
		}
	}
	return ""
}

// WaitRuntime waits for the runtime process of generation >= minGen.
func (e *Emu) WaitRuntime(minGen int, timeout time.Duration) *Proc {
	return e.Sup.WaitProc(func(p *Proc) bool { return p.Role == "runtime" && p.Gen >= minGen }, timeout)
}

// WaitExt waits for the external extension process base of generation >= minGen.
func (e *Emu) WaitExt(base string, minGen int, timeout time.Duration) *Proc {
	return e.Sup.WaitProc(func(p *Proc) bool { return p.Role == "ext" && p.Base == base && p.Gen >= minGen }, timeout)
}

// Settle waits until the async call has returned or cond() holds (the
// party is known to be parked inside the emulator). It reports which.
func Settle(a *Async, cond func() bool, timeout time.Duration) (returned, parked bool) {
	deadline := time.Now().Add(timeout)
	for {
		if a.Done() {
			return true, false
		}
		if cond != nil && cond() {
			return false, true
		}
		if time.Now().After(deadline) {
			return false, false
		}
		time.Sleep(100 * time.Microsecond)
	}
}

// ---- invoke callers ----

// RecWriter is the http.ResponseWriter handed to Invoke; it records every use.
type RecWriter struct {
	mu     sync.Mutex
	hdr    http.Header
	Writes [][]byte
	Status int
	closed bool // set when Invoke returned
	Late   int  // writes after Invoke returned
	log    *Log
	src    string
}

func (w *RecWriter) Header() http.Header {
	w.mu.Lock()
	defer w.mu.Unlock()
	if w.hdr == nil {
		w.hdr = http.Header{}
	}
	return w.hdr
}

func (w *RecWriter) Write(b []byte) (int, error) {
	w.mu.Lock()
	defer w.mu.Unlock()
	c := append([]byte{}, b...)
	w.Writes = append(w.Writes, c)
	if w.closed {
		w.Late++
	}
	w.log.Add(Event{Src: w.src, Kind: "write", Len: len(b), Sha: Digest(b)})
	return len(b), nil
}

func (w *RecWriter) WriteHeader(code int) {
	w.mu.Lock()
	defer w.mu.Unlock()
	w.Status = code
}

func (w *RecWriter) Body() []byte {
	w.mu.Lock()
	defer w.mu.Unlock()
	if len(w.Writes) == 0 {
		return nil
	}
	return bytes.Join(w.Writes, nil)
}

func (w *RecWriter) NWrites() int {
	w.mu.Lock()
	defer w.mu.Unlock()
	return len(w.Writes)
}

func (w *RecWriter) LateWrites() int {
	w.mu.Lock()
	defer w.mu.Unlock()
	return w.Late
}

// Invocation is one call of the emulator's Invoke entry point.
type Invocation struct {
	N       int64
	Payload []byte
	W       *RecWriter
	Err     error
	CallSeq int64
	RetSeq  int64
	CallT   time.Time
	RetT    time.Time
	done    chan struct{}
	Req     *interop.Invoke
}

func (i *Invocation) Done() bool {
	select {
	case <-i.done:
		return true
	default:
		return false
	}
}

func (i *Invocation) Wait(timeout time.Duration) bool {
	select {
	case <-i.done:
		return true
	case <-time.After(timeout):
		return false
	}
}

// InvokeOpts are the caller-supplied parts of an invocation.
type InvokeOpts struct {
	ARN           string
	TraceID       string
	ClientContext string
	ContentType   string
}

// InvokeAsync calls EmulatorAPI.Invoke on a new goroutine, like the HTTP front end.
func (e *Emu) InvokeAsync(payload []byte, o InvokeOpts) *Invocation {
	n := e.callerN.Add(1)
	src := fmt.Sprintf("caller:%d", n)
	inv := &Invocation{N: n, Payload: payload, done: make(chan struct{})}
	inv.W = &RecWriter{log: e.Log, src: src}
	if o.ARN == "" {
		o.ARN = "arn:aws:lambda:us-east-1:012345678912:function:" + e.Cfg.FunctionName
	}
	inv.Req = &interop.Invoke{
		ID:                 fmt.Sprintf("front-%d", n),
		InvokedFunctionArn: o.ARN,
		TraceID:            o.TraceID,
		Payload:            bytes.NewReader(payload),
		ClientContext:      o.ClientContext,
		ContentType:        o.ContentType,
	}
	inv.CallT = time.Now()
	inv.CallSeq = e.Log.Add(Event{Src: src, Kind: "call", Op: "invoke", Len: len(payload), Sha: Digest(payload)})
	go func() {
		err := e.API.Invoke(inv.W, inv.Req)
		inv.RetT = time.Now()
		inv.W.mu.Lock()
		inv.W.closed = true
		inv.W.mu.Unlock()
		inv.Err = err
		x := map[string]string{}
		if err != nil {
			x["err"] = err.Error()
		}
		b := inv.W.Body()
		inv.RetSeq = e.Log.Add(Event{Src: src, Kind: "ret", Op: "invoke", Ref: inv.CallSeq, Len: len(b), Sha: Digest(b), Extra: x})
		close(inv.done)
	}()
	return inv
}

// StandaloneInvoke drives one invocation the way the standalone front end's client does (reserve, wait until
// initialised, invoke, wait until release) and, when that fails, asks for a reset with the reason the client would
// give ("failure" / "timeout"). Everything is logged under a caller source like InvokeAsync does.
func (e *Emu) StandaloneInvoke(payload []byte) (error, *RecWriter) {
	n := e.callerN.Add(1)
	src := fmt.Sprintf("caller:%d", n)
	w := &RecWriter{log: e.Log, src: src}
	callSeq := e.Log.Add(Event{Src: src, Kind: "call", Op: "invoke", Len: len(payload), Sha: Digest(payload), Extra: map[string]string{"style": "standalone"}})
	finish := func(err error) (error, *RecWriter) {
		w.mu.Lock()
		w.closed = true
		w.mu.Unlock()
		x := map[string]string{}
		if err != nil {
			x["err"] = err.Error()
		}
		e.Log.Add(Event{Src: src, Kind: "ret", Op: "invoke", Ref: callSeq, Len: len(w.Body()), Extra: x})
		return err, w
	}
	if _, err := e.Srv.Reserve("", "", ""); err != nil {
		return finish(err)
	}
	if err := e.Srv.AwaitInitialized(); err != nil {
		e.Srv.Reset("failure", 2000)
		return finish(err)
	}
	inv := &interop.Invoke{
		InvokedFunctionArn: "arn:aws:lambda:us-east-1:012345678912:function:" + e.Cfg.FunctionName,
		Payload:            bytes.NewReader(payload),
		DeadlineNs:         fmt.Sprintf("%d", metering.Monotime()+e.Cfg.TimeoutMs*1000*1000),
	}
	if err := e.Srv.FastInvoke(w, inv, false); err != nil {
		e.Srv.Reset("failure", 2000)
		return finish(err)
	}
	if _, err := e.Srv.AwaitRelease(); err != nil {
		e.Log.Add(Event{Src: "drv", Kind: "call", Op: "reset", Extra: map[string]string{"reason": "failure"}})
		e.Srv.Reset("failure", 2000)
		e.Log.Add(Event{Src: "drv", Kind: "ret", Op: "reset"})
		return finish(err)
	}
	return finish(nil)
}

// ErrName maps an Invoke error to a short name.
func ErrName(err error) string {
	switch err {
	case nil:
		return "ok"
	case rapidcore.ErrInvokeTimeout:
		return "timeout"
	case rapidcore.ErrInvokeDoneFailed:
		return "invokefail"
	case rapidcore.ErrInitDoneFailed:
		return "initfail"
	case rapidcore.ErrAlreadyReserved:
		return "alreadyreserved"
	case rapidcore.ErrInitNotStarted:
		return "initnotstarted"
	case rapidcore.ErrReleaseReservationDone:
		return "releasereservationdone"
	}
	return "other:" + err.Error()
}

var _ = supvmodel.Event{}
