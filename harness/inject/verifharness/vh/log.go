// Package vh is the verification harness library: event log, fake
// supervisor, scripted HTTP parties, emulator assembly, recorders.
// It is injected into a scratch copy of the repository (module go.amzn.com)
// and only uses the repository's exported API.
package vh

import (
	"crypto/sha256"
	"encoding/hex"
	"encoding/json"
	"fmt"
	"sync"
	"sync/atomic"
	"time"
)

// Event is one record of the shared, totally ordered event log.
type Event struct {
	Seq    int64             `json:"seq"`
	T      int64             `json:"t_us"` // microseconds since log start (monotonic)
	Src    string            `json:"src"`  // rt:<proc>, ext:<proc>, caller:<n>, sup, events, hook, drv
	Kind   string            `json:"kind"` // call, ret, exec, term, kill, killret, exit, evt, hook, note
	Op     string            `json:"op,omitempty"`
	Status int               `json:"status,omitempty"`
	Etype  string            `json:"etype,omitempty"`
	ID     string            `json:"id,omitempty"`
	Len    int               `json:"len,omitempty"`
	Sha    string            `json:"sha,omitempty"`
	Ref    int64             `json:"ref,omitempty"` // seq of the matching call for a ret
	Extra  map[string]string `json:"x,omitempty"`
}

// Log is a thread-safe append-only event log with one sequence counter and
// one monotonic clock shared by all sources of a scenario.
type Log struct {
	mu     sync.Mutex
	seq    int64
	t0     time.Time
	events []Event
}

func NewLog() *Log { return &Log{t0: time.Now()} }

var globalSeq atomic.Int64

func (l *Log) Add(e Event) int64 {
	l.mu.Lock()
	defer l.mu.Unlock()
	l.seq++
	e.Seq = l.seq
	e.T = time.Since(l.t0).Microseconds()
	l.events = append(l.events, e)
	return e.Seq
}

func (l *Log) Now() time.Duration { return time.Since(l.t0) }

// Snapshot returns a copy of the events so far.
func (l *Log) Snapshot() []Event {
	l.mu.Lock()
	defer l.mu.Unlock()
	res := make([]Event, len(l.events))
	copy(res, l.events)
	return res
}

func (l *Log) Len() int {
	l.mu.Lock()
	defer l.mu.Unlock()
	return len(l.events)
}

// Digest returns a short sha-256 of b.
func Digest(b []byte) string {
	h := sha256.Sum256(b)
	return hex.EncodeToString(h[:8])
}

func (e Event) String() string {
	b, _ := json.Marshal(e)
	return string(b)
}

// Filter returns the events matching pred.
func Filter(evs []Event, pred func(Event) bool) []Event {
	var res []Event
	for _, e := range evs {
		if pred(e) {
			res = append(res, e)
		}
	}
	return res
}

func FmtEvents(evs []Event, max int) []string {
	var res []string
	for i, e := range evs {
		if max > 0 && i >= max {
			res = append(res, fmt.Sprintf("... %d more", len(evs)-max))
			break
		}
		s := fmt.Sprintf("%d %s %s %s", e.Seq, e.Src, e.Kind, e.Op)
		if e.Status != 0 {
			s += fmt.Sprintf(" st=%d", e.Status)
		}
		if e.Etype != "" {
			s += " et=" + e.Etype
		}
		if e.ID != "" {
			s += " id=" + e.ID
		}
		if e.Len != 0 {
			s += fmt.Sprintf(" len=%d sha=%s", e.Len, e.Sha)
		}
		for k, v := range e.Extra {
			s += " " + k + "=" + v
		}
		res = append(res, s)
	}
	return res
}
