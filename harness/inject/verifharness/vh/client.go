package vh

import (
	"bytes"
	"context"
	"encoding/json"
	"io"
	"net"
	"net/http"
	"strings"
	"sync"
	"time"
)

// Resp is what a scripted party observed for one HTTP call.
type Resp struct {
	CallSeq int64
	RetSeq  int64
	Status  int // 0 = transport error
	Header  http.Header
	Body    []byte
	Err     error
	Etype   string // errorType of a JSON error body, if any
}

// Party issues real HTTP calls to the Runtime / Extensions API on behalf of
// one scripted process and logs call/ret records around each of them.
type Party struct {
	Src    string // log source label
	Addr   string // host:port of the Runtime API
	Log    *Log
	Ctx    context.Context // cancelled when the owning process is killed
	hc     *http.Client
	tr     *http.Transport
	ExtID  string // Lambda-Extension-Identifier after a successful register
	mu     sync.Mutex
	hist   []CallRec
	stream io.Reader // body of the next call (slow upload), consumed once
}

// CallRec is one completed call of a party with its request data.
type CallRec struct {
	Op      string
	ID      string // request id the call was addressed to (response/error)
	ReqBody []byte
	ReqHdr  map[string]string
	Resp    *Resp
}

// History returns the calls completed so far.
func (p *Party) History() []CallRec {
	p.mu.Lock()
	defer p.mu.Unlock()
	return append([]CallRec{}, p.hist...)
}

func (p *Party) record(op string, hdr map[string]string, body []byte, r *Resp) {
	p.mu.Lock()
	defer p.mu.Unlock()
	p.hist = append(p.hist, CallRec{Op: op, ID: hdr["__id"], ReqBody: body, ReqHdr: hdr, Resp: r})
}

func NewParty(src, addr string, l *Log, ctx context.Context) *Party {
	tr := &http.Transport{
		DialContext:         (&net.Dialer{Timeout: 5 * time.Second}).DialContext,
		MaxIdleConnsPerHost: 4,
		DisableCompression:  true,
	}
	return &Party{Src: src, Addr: addr, Log: l, Ctx: ctx, tr: tr, hc: &http.Client{Transport: tr}}
}

func (p *Party) Close() { p.tr.CloseIdleConnections() }

type errBody struct {
	ErrorType string `json:"errorType"`
}

// Call performs one request. op is the label used in the log.
func (p *Party) Call(op, method, path string, hdr map[string]string, body []byte) *Resp {
	r := p.call(op, method, path, hdr, body)
	p.record(op, hdr, body, r)
	return r
}

func (p *Party) call(op, method, path string, hdr map[string]string, body []byte) *Resp {
	r := &Resp{}
	ev := Event{Src: p.Src, Kind: "call", Op: op, Len: len(body)}
	if len(body) > 0 {
		ev.Sha = Digest(body)
	}
	if id, ok := hdr["__id"]; ok {
		ev.ID = id
	}
	for k, v := range hdr {
		if strings.HasPrefix(k, "__x_") {
			if ev.Extra == nil {
				ev.Extra = map[string]string{}
			}
			if len(v) > 300 {
				v = v[:300]
			}
			ev.Extra[strings.TrimPrefix(k, "__x_")] = v
		}
	}
	r.CallSeq = p.Log.Add(ev)
	var rd io.Reader
	if body != nil {
		rd = bytes.NewReader(body)
	}
	p.mu.Lock()
	if p.stream != nil {
		rd, p.stream = p.stream, nil
	}
	p.mu.Unlock()
	req, err := http.NewRequestWithContext(p.Ctx, method, "http://"+p.Addr+path, rd)
	if err != nil {
		r.Err = err
		r.RetSeq = p.Log.Add(Event{Src: p.Src, Kind: "ret", Op: op, Ref: r.CallSeq, Extra: map[string]string{"err": err.Error()}})
		return r
	}
	for k, v := range hdr {
		if strings.HasPrefix(k, "__") {
			continue
		}
		if k == "User-Agent" && v == "" {
			req.Header["User-Agent"] = nil
			continue
		}
		req.Header.Set(k, v)
	}
	resp, err := p.hc.Do(req)
	if err != nil {
		r.Err = err
		r.RetSeq = p.Log.Add(Event{Src: p.Src, Kind: "ret", Op: op, Ref: r.CallSeq, Extra: map[string]string{"err": trimErr(err)}})
		return r
	}
	defer resp.Body.Close()
	b, err := io.ReadAll(resp.Body)
	r.Status, r.Header, r.Body = resp.StatusCode, resp.Header, b
	if err != nil {
		r.Err = err
	}
	if resp.StatusCode >= 400 && len(b) > 0 {
		var eb errBody
		if json.Unmarshal(b, &eb) == nil {
			r.Etype = eb.ErrorType
		}
	}
	ret := Event{Src: p.Src, Kind: "ret", Op: op, Ref: r.CallSeq, Status: r.Status, Etype: r.Etype, Len: len(b)}
	if len(b) > 0 {
		ret.Sha = Digest(b)
	}
	if id := resp.Header.Get("Lambda-Runtime-Aws-Request-Id"); id != "" {
		ret.ID = id
	}
	if err != nil {
		ret.Extra = map[string]string{"err": trimErr(err)}
	}
	if resp.StatusCode >= 400 {
		if ret.Extra == nil {
			ret.Extra = map[string]string{}
		}
		bs := string(b)
		if len(bs) > 240 {
			bs = bs[:240]
		}
		ret.Extra["body"] = bs
	}
	r.RetSeq = p.Log.Add(ret)
	return r
}

func trimErr(err error) string {
	s := err.Error()
	if len(s) > 120 {
		s = s[:120]
	}
	return s
}

// ---- Runtime API ----

const (
	rtBase  = "/2018-06-01/runtime"
	extBase = "/2020-01-01/extension"
)

func (p *Party) Next() *Resp {
	return p.Call("next", "GET", rtBase+"/invocation/next", nil, nil)
}

func (p *Party) NextH(h map[string]string) *Resp {
	return p.Call("next", "GET", rtBase+"/invocation/next", h, nil)
}

func (p *Party) Respond(id string, body []byte, hdr map[string]string) *Resp {
	h := map[string]string{"__id": id}
	for k, v := range hdr {
		h[k] = v
	}
	return p.Call("response", "POST", rtBase+"/invocation/"+id+"/response", h, body)
}

// RespondStream posts a response whose body is read from rd as the transport asks for it
// (chunked upload): the caller decides when the upload ends. logged is what the log records
// as the body.
func (p *Party) RespondStream(id string, rd io.Reader, logged []byte) *Resp {
	p.mu.Lock()
	p.stream = rd
	p.mu.Unlock()
	return p.Call("response", "POST", rtBase+"/invocation/"+id+"/response", map[string]string{"__id": id, "__x_upload": "slow"}, logged)
}

// ErrorStream is RespondStream for the /error route.
func (p *Party) ErrorStream(id string, rd io.Reader, logged []byte) *Resp {
	p.mu.Lock()
	p.stream = rd
	p.mu.Unlock()
	return p.Call("error", "POST", rtBase+"/invocation/"+id+"/error", map[string]string{"__id": id, "__x_upload": "slow", "Lambda-Runtime-Function-Error-Type": "Function.SlowUpload"}, logged)
}

func (p *Party) Error(id string, body []byte, hdr map[string]string) *Resp {
	h := map[string]string{"__id": id}
	for k, v := range hdr {
		h[k] = v
	}
	return p.Call("error", "POST", rtBase+"/invocation/"+id+"/error", h, body)
}

func (p *Party) InitError(body []byte, hdr map[string]string) *Resp {
	return p.Call("initerror", "POST", rtBase+"/init/error", hdr, body)
}

func (p *Party) RestoreNext() *Resp {
	return p.Call("restorenext", "GET", rtBase+"/restore/next", nil, nil)
}

func (p *Party) RestoreError(body []byte, hdr map[string]string) *Resp {
	return p.Call("restoreerror", "POST", rtBase+"/restore/error", hdr, body)
}

// ---- Extensions API ----

// Register registers an extension under name with the given events.
func (p *Party) Register(name string, events []string, features string) *Resp {
	body, _ := json.Marshal(map[string]interface{}{"events": events})
	return p.RegisterRaw(name, body, features)
}

func (p *Party) RegisterRaw(name string, body []byte, features string) *Resp {
	h := map[string]string{"__x_name": name, "__x_body": string(body)}
	if name != "" {
		h["Lambda-Extension-Name"] = name
	}
	if features != "" {
		h["Lambda-Extension-Accept-Feature"] = features
	}
	r := p.Call("register", "POST", extBase+"/register", h, body)
	if r.Status == 200 {
		p.mu.Lock()
		p.ExtID = r.Header.Get("Lambda-Extension-Identifier")
		p.mu.Unlock()
	}
	return r
}

func (p *Party) ID() string {
	p.mu.Lock()
	defer p.mu.Unlock()
	return p.ExtID
}

func (p *Party) extHdr(id string) map[string]string {
	if id == "" {
		return map[string]string{}
	}
	return map[string]string{"Lambda-Extension-Identifier": id}
}

func (p *Party) ExtNext() *Resp { return p.ExtNextID(p.ID()) }

func (p *Party) ExtNextID(id string) *Resp {
	return p.Call("extnext", "GET", extBase+"/event/next", p.extHdr(id), nil)
}

func (p *Party) ExtInitError(id, etype string) *Resp {
	h := p.extHdr(id)
	if etype != "" {
		h["Lambda-Extension-Function-Error-Type"] = etype
	}
	return p.Call("extiniterror", "POST", extBase+"/init/error", h, []byte(`{"errorMessage":"x"}`))
}

func (p *Party) ExtExitError(id, etype string) *Resp {
	h := p.extHdr(id)
	if etype != "" {
		h["Lambda-Extension-Function-Error-Type"] = etype
	}
	return p.Call("extexiterror", "POST", extBase+"/exit/error", h, []byte(`{"errorMessage":"x"}`))
}

// ReqID returns the request id header of a /next response.
func (r *Resp) ReqID() string {
	if r == nil || r.Header == nil {
		return ""
	}
	return r.Header.Get("Lambda-Runtime-Aws-Request-Id")
}

// Async runs f on a goroutine and lets the caller poll / wait for it.
type Async struct {
	done chan struct{}
	R    *Resp
}

func Go(f func() *Resp) *Async {
	a := &Async{done: make(chan struct{})}
	go func() {
		a.R = f()
		close(a.done)
	}()
	return a
}

func (a *Async) Done() bool {
	select {
	case <-a.done:
		return true
	default:
		return false
	}
}

func (a *Async) Wait(timeout time.Duration) *Resp {
	select {
	case <-a.done:
		return a.R
	case <-time.After(timeout):
		return nil
	}
}
