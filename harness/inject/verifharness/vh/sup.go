package vh

import (
	"context"
	"errors"
	"fmt"
	"strings"
	"sync"
	"time"

	supvmodel "go.amzn.com/lambda/supervisor/model"
)

// Exit describes how a scripted process ends.
type Exit struct {
	Code   int32
	Signal int32 // if non-zero the process "died of" this signal
}

// Behaviour is the body of a scripted process. It runs on its own goroutine
// and returns how the process exits. p.Ctx is cancelled when the process is
// KILLed; p.Term is closed when it is TERMinated.
type Behaviour func(p *Proc) Exit

// Proc is a scripted process started through the fake supervisor.
type Proc struct {
	Name string // supervisor name, e.g. runtime-1, extension-foo-1
	Path string
	Args []string
	Env  map[string]string
	Cwd  string
	Gen  int    // generation parsed from the name suffix
	Role string // "runtime" or "ext"
	Base string // extension base name ("" for runtime)

	Ctx    context.Context
	cancel context.CancelFunc
	Term   chan struct{}
	termMu sync.Once

	Done chan struct{} // closed when the behaviour has returned (process is gone)

	ExitCh     chan Exit // puppet: driver-requested exit
	exitMu     sync.Once
	sup        *FakeSup
	killed     bool
	mu         sync.Mutex
	Unkillable bool
	MuteExit   bool
	KillDelay  time.Duration

	ExecSeq int64
	ExitSeq int64 // seq of the "exit" log record (0 while alive)
}

// RequestExit asks a puppet process to exit with e (idempotent).
func (p *Proc) RequestExit(e Exit) {
	p.exitMu.Do(func() {
		p.ExitCh <- e
	})
}

// Alive reports whether the process is still running.
func (p *Proc) Alive() bool {
	select {
	case <-p.Done:
		return false
	default:
		return true
	}
}

// ExecPlan tells the fake supervisor what to do for one Exec request.
type ExecPlan struct {
	Fail       error         // if set, Exec returns this error
	Behave     Behaviour     // body of the process (default: Puppet{})
	Unkillable bool          // Kill does not terminate the process
	MuteExit   bool          // the termination event of this process is never delivered
	KillDelay  time.Duration // Kill takes this long before the process dies (a SIGKILL is not instantaneous)
	// EarlyExit: the process exits and its exit event is offered on the
	// events channel before Exec returns (legal for the real supervisor,
	// whose waiter goroutine starts before Exec returns).
	EarlyExit *Exit
}

// FakeSup implements supvmodel.ProcessSupervisor with goroutine processes.
type FakeSup struct {
	Log    *Log
	events chan supvmodel.Event

	mu    sync.Mutex
	procs map[string]*Proc
	order []*Proc
	// Plan decides what each Exec does. Called with the mutex released.
	Plan func(req *supvmodel.ExecRequest, p *Proc) ExecPlan

	procCond *sync.Cond
	wg       sync.WaitGroup
	closed   bool
}

var _ supvmodel.ProcessSupervisor = (*FakeSup)(nil)

func NewFakeSup(l *Log) *FakeSup {
	s := &FakeSup{Log: l, events: make(chan supvmodel.Event), procs: map[string]*Proc{}}
	s.procCond = sync.NewCond(&s.mu)
	return s
}

func parseProcName(name string) (role, base string, gen int) {
	idx := strings.LastIndex(name, "-")
	if idx < 0 {
		return "?", name, 0
	}
	fmt.Sscanf(name[idx+1:], "%d", &gen)
	head := name[:idx]
	if head == "runtime" {
		return "runtime", "", gen
	}
	if strings.HasPrefix(head, "extension-") {
		return "ext", strings.TrimPrefix(head, "extension-"), gen
	}
	return "?", head, gen
}

func copyEnv(m *map[string]string) map[string]string {
	res := map[string]string{}
	if m != nil {
		for k, v := range *m {
			res[k] = v
		}
	}
	return res
}

func (s *FakeSup) Exec(ctx context.Context, req *supvmodel.ExecRequest) error {
	role, base, gen := parseProcName(req.Name)
	p := &Proc{
		Name: req.Name, Path: req.Path, Args: append([]string{}, req.Args...), Env: copyEnv(req.Env),
		Gen: gen, Role: role, Base: base,
		Term: make(chan struct{}), Done: make(chan struct{}), ExitCh: make(chan Exit, 1), sup: s,
	}
	if req.Cwd != nil {
		p.Cwd = *req.Cwd
	}
	p.Ctx, p.cancel = context.WithCancel(context.Background())

	var plan ExecPlan
	if s.Plan != nil {
		plan = s.Plan(req, p)
	}
	x := map[string]string{"path": req.Path, "domain": req.Domain}
	if plan.Fail != nil {
		x["fail"] = plan.Fail.Error()
		s.Log.Add(Event{Src: "sup", Kind: "exec", Op: req.Name, Extra: x})
		return plan.Fail
	}
	p.Unkillable = plan.Unkillable
	p.MuteExit = plan.MuteExit
	p.KillDelay = plan.KillDelay
	p.ExecSeq = s.Log.Add(Event{Src: "sup", Kind: "exec", Op: req.Name, Extra: x})

	s.mu.Lock()
	if _, dup := s.procs[req.Name]; dup {
		s.mu.Unlock()
		s.Log.Add(Event{Src: "sup", Kind: "note", Op: "duplicate-exec " + req.Name})
		return errors.New("duplicate process name")
	}
	s.procs[req.Name] = p
	s.order = append(s.order, p)
	s.procCond.Broadcast()
	s.mu.Unlock()

	behave := plan.Behave
	if plan.EarlyExit != nil {
		e := *plan.EarlyExit
		behave = func(*Proc) Exit { return e }
	}
	if behave == nil {
		behave = Puppet{ExitOnTerm: true}.Run
	}
	delivered := make(chan struct{})
	s.wg.Add(1)
	go func() {
		defer s.wg.Done()
		ex := behave(p)
		p.mu.Lock()
		if p.killed {
			ex = Exit{Signal: 9}
		}
		p.mu.Unlock()
		x := map[string]string{}
		var ev supvmodel.EventData
		dom := req.Domain
		name := req.Name
		ev.Domain, ev.Name = &dom, &name
		if ex.Signal != 0 {
			sig := ex.Signal
			ev.Signo = &sig
			x["signal"] = fmt.Sprint(sig)
		} else {
			code := ex.Code
			ev.ExitStatus = &code
			x["code"] = fmt.Sprint(code)
		}
		p.cancel()
		p.mu.Lock()
		p.ExitSeq = s.Log.Add(Event{Src: "sup", Kind: "exit", Op: req.Name, Extra: x})
		p.mu.Unlock()
		close(p.Done)
		if plan.MuteExit {
			// the process is gone (Kill succeeds) but its termination is never reported
			s.Log.Add(Event{Src: "sup", Kind: "note", Op: "exit-event-withheld " + req.Name})
			return
		}
		// like the local supervisor: termination is visible first, then the
		// event is offered on the unbuffered channel
		s.events <- supvmodel.Event{Time: uint64(time.Now().UnixMilli()), Event: ev}
		s.Log.Add(Event{Src: "sup", Kind: "exitdelivered", Op: req.Name})
		close(delivered)
	}()
	if plan.EarlyExit != nil {
		// give the watcher a chance to consume the event before Exec returns
		select {
		case <-delivered:
		case <-time.After(2 * time.Second):
		}
	}
	return nil
}

func (s *FakeSup) find(name string) (*Proc, bool) {
	s.mu.Lock()
	defer s.mu.Unlock()
	p, ok := s.procs[name]
	return p, ok
}

func (s *FakeSup) Terminate(ctx context.Context, req *supvmodel.TerminateRequest) error {
	p, ok := s.find(req.Name)
	if !ok {
		s.Log.Add(Event{Src: "sup", Kind: "term", Op: req.Name, Extra: map[string]string{"unknown": "1"}})
		msg := "Unknown process"
		return &supvmodel.SupervisorError{Kind: supvmodel.NoSuchEntity, Message: &msg}
	}
	s.Log.Add(Event{Src: "sup", Kind: "term", Op: req.Name})
	p.termMu.Do(func() { close(p.Term) })
	return nil
}

func (s *FakeSup) Kill(ctx context.Context, req *supvmodel.KillRequest) error {
	p, ok := s.find(req.Name)
	if !ok {
		s.Log.Add(Event{Src: "sup", Kind: "kill", Op: req.Name, Extra: map[string]string{"unknown": "1"}})
		msg := "Unknown process"
		return &supvmodel.SupervisorError{Kind: supvmodel.NoSuchEntity, Message: &msg}
	}
	alive := p.Alive()
	s.Log.Add(Event{Src: "sup", Kind: "kill", Op: req.Name, Extra: map[string]string{"alive": fmt.Sprint(alive)}})
	if !alive {
		s.Log.Add(Event{Src: "sup", Kind: "killret", Op: req.Name, Extra: map[string]string{"res": "already"}})
		return nil
	}
	if time.Since(req.Deadline) > 0 {
		s.Log.Add(Event{Src: "sup", Kind: "killret", Op: req.Name, Extra: map[string]string{"res": "pastdeadline"}})
		return fmt.Errorf("invalid timeout while killing %s", req.Name)
	}
	if !p.Unkillable {
		if p.KillDelay > 0 {
			dt := time.NewTimer(p.KillDelay)
			select {
			case <-dt.C:
			case <-p.Done:
			}
			dt.Stop()
		}
		p.mu.Lock()
		p.killed = true
		p.mu.Unlock()
		p.cancel()
	}
	t := time.NewTimer(time.Until(req.Deadline))
	defer t.Stop()
	select {
	case <-p.Done:
		s.Log.Add(Event{Src: "sup", Kind: "killret", Op: req.Name, Extra: map[string]string{"res": "ok"}})
		return nil
	case <-t.C:
		s.Log.Add(Event{Src: "sup", Kind: "killret", Op: req.Name, Extra: map[string]string{"res": "timeout"}})
		return fmt.Errorf("timed out while trying to SIGKILL %s", req.Name)
	}
}

func (s *FakeSup) Events(ctx context.Context, req *supvmodel.EventsRequest) (<-chan supvmodel.Event, error) {
	return s.events, nil
}

// Procs returns all processes exec'd so far in exec order.
func (s *FakeSup) Procs() []*Proc {
	s.mu.Lock()
	defer s.mu.Unlock()
	return append([]*Proc{}, s.order...)
}

// WaitProc waits until a process matching pred has been exec'd.
func (s *FakeSup) WaitProc(pred func(*Proc) bool, timeout time.Duration) *Proc {
	deadline := time.Now().Add(timeout)
	for {
		s.mu.Lock()
		for _, p := range s.order {
			if pred(p) {
				s.mu.Unlock()
				return p
			}
		}
		s.mu.Unlock()
		if time.Now().After(deadline) {
			return nil
		}
		time.Sleep(200 * time.Microsecond)
	}
}

// KillAllForCleanup terminates every process still alive (harness teardown;
// logged as note so oracles can ignore it).
func (s *FakeSup) KillAllForCleanup() {
	s.Log.Add(Event{Src: "drv", Kind: "note", Op: "cleanup"})
	for _, p := range s.Procs() {
		if p.Alive() {
			p.mu.Lock()
			p.killed = true
			p.mu.Unlock()
			p.cancel()
			p.RequestExit(Exit{Signal: 9})
		}
	}
}

// Puppet is a passive process: it does nothing by itself; a driver issues
// HTTP calls on its behalf. It ends when killed, when asked to through
// RequestExit, or on TERM (if ExitOnTerm).
type Puppet struct {
	ExitOnTerm bool
	TermExit   Exit
	TermDelay  time.Duration
}

func (b Puppet) Run(p *Proc) Exit {
	term := p.Term
	if !b.ExitOnTerm {
		term = nil
	}
	select {
	case <-p.Ctx.Done():
		return Exit{Signal: 9}
	case e := <-p.ExitCh:
		return e
	case <-term:
		if b.TermDelay > 0 {
			select {
			case <-time.After(b.TermDelay):
			case <-p.Ctx.Done():
				return Exit{Signal: 9}
			}
		}
		return b.TermExit
	}
}

// Sleep sleeps d or until the process is killed; it reports false if killed.
func (p *Proc) Sleep(d time.Duration) bool {
	t := time.NewTimer(d)
	defer t.Stop()
	select {
	case <-t.C:
		return true
	case <-p.Ctx.Done():
		return false
	}
}
