package vh

import (
	"context"
	"fmt"
	"strings"
	"sync"
	"time"

	"go.amzn.com/lambda/appctx"
	"go.amzn.com/lambda/interop"
	"go.amzn.com/lambda/telemetry"
)

// RecEvents records every platform lifecycle event into the scenario log.
type RecEvents struct {
	telemetry.NoOpEventsAPI
	log *Log
	// SlowMs: a slow telemetry sink - the named Send* call takes this long (after it was recorded)
	SlowMs map[string]int
	slowMu sync.Mutex
}

func (r *RecEvents) slow(op string) {
	r.slowMu.Lock()
	ms := r.SlowMs[op]
	delete(r.SlowMs, op) // the first occurrence only
	r.slowMu.Unlock()
	if ms > 0 {
		time.Sleep(time.Duration(ms) * time.Millisecond)
	}
}

var _ interop.EventsAPI = (*RecEvents)(nil)

func ptrStr(p *string) string {
	if p == nil {
		return ""
	}
	return *p
}

func (r *RecEvents) SetCurrentRequestID(id interop.RequestID) {
	r.log.Add(Event{Src: "events", Kind: "evt", Op: "SetCurrentRequestID", ID: string(id)})
}

func (r *RecEvents) SendInitStart(d interop.InitStartData) error {
	r.log.Add(Event{Src: "events", Kind: "evt", Op: "InitStart", Extra: map[string]string{"phase": string(d.Phase), "type": string(d.InitializationType), "fn": d.FunctionName, "ver": d.FunctionVersion}})
	r.slow("InitStart")
	return nil
}

func (r *RecEvents) SendInitRuntimeDone(d interop.InitRuntimeDoneData) error {
	r.log.Add(Event{Src: "events", Kind: "evt", Op: "InitRuntimeDone", Etype: ptrStr(d.ErrorType), Extra: map[string]string{"phase": string(d.Phase), "status": d.Status}})
	return nil
}

func (r *RecEvents) SendInitReport(d interop.InitReportData) error {
	r.log.Add(Event{Src: "events", Kind: "evt", Op: "InitReport", Extra: map[string]string{"phase": string(d.Phase)}})
	return nil
}

func (r *RecEvents) SendRestoreRuntimeDone(d interop.RestoreRuntimeDoneData) error {
	r.log.Add(Event{Src: "events", Kind: "evt", Op: "RestoreRuntimeDone", Etype: ptrStr(d.ErrorType), Extra: map[string]string{"status": d.Status}})
	return nil
}

func (r *RecEvents) SendInvokeStart(d interop.InvokeStartData) error {
	r.log.Add(Event{Src: "events", Kind: "evt", Op: "InvokeStart", ID: d.RequestID})
	r.slow("InvokeStart")
	return nil
}

func (r *RecEvents) SendInvokeRuntimeDone(d interop.InvokeRuntimeDoneData) error {
	r.log.Add(Event{Src: "events", Kind: "evt", Op: "InvokeRuntimeDone", ID: string(d.RequestID), Etype: ptrStr(d.ErrorType), Extra: map[string]string{"status": d.Status}})
	return nil
}

func (r *RecEvents) SendExtensionInit(d interop.ExtensionInitData) error {
	r.log.Add(Event{Src: "events", Kind: "evt", Op: "ExtensionInit", Etype: d.ErrorType, Extra: map[string]string{"name": d.AgentName, "state": d.State, "subs": strings.Join(d.Subscriptions, ",")}})
	return nil
}

func (r *RecEvents) SendReportSpan(s interop.Span) error {
	r.log.Add(Event{Src: "events", Kind: "evt", Op: "ReportSpan", Extra: map[string]string{"name": s.Name}})
	return nil
}

func (r *RecEvents) SendImageErrorLog(d interop.ImageErrorLogData) {
	r.log.Add(Event{Src: "events", Kind: "evt", Op: "ImageErrorLog"})
}

// RecTracer is the no-op tracer plus a record of the error cause that the
// invocation stored in the application context.
type RecTracer struct {
	telemetry.NoOpTracer
	log    *Log
	mu     sync.Mutex
	Causes []string // one entry per invocation: the stored ErrorCause JSON ("" if none, "<nil>" if no data)
}

func newRecTracer(l *Log) *RecTracer { return &RecTracer{log: l} }

func (t *RecTracer) WithErrorCause(ctx context.Context, appCtx appctx.ApplicationContext, f func(ctx context.Context) error) func(ctx context.Context) error {
	return func(ctx context.Context) error {
		err := f(ctx)
		d := appctx.LoadInvokeErrorTraceData(appCtx)
		c := "<nil>"
		if d != nil {
			c = string(d.ErrorCause)
		}
		t.mu.Lock()
		t.Causes = append(t.Causes, c)
		t.mu.Unlock()
		t.log.Add(Event{Src: "tracer", Kind: "evt", Op: "ErrorCause", Len: len(c), Extra: map[string]string{"err": fmt.Sprint(err)}})
		return err
	}
}

func (t *RecTracer) LastCause() (string, int) {
	t.mu.Lock()
	defer t.mu.Unlock()
	if len(t.Causes) == 0 {
		return "", 0
	}
	return t.Causes[len(t.Causes)-1], len(t.Causes)
}
